// Independent SHA-1 (FIPS 180-4) and Base64 (RFC 4648), written from the standards for use as oracles.
#pragma once
#include <string>
#include <stdint.h>
#include <string.h>

namespace ref {

inline std::string sha1(const std::string& msg)
{
	uint32_t h0 = 0x67452301, h1 = 0xEFCDAB89, h2 = 0x98BADCFE, h3 = 0x10325476, h4 = 0xC3D2E1F0;
	std::string m = msg;
	uint64_t ml = (uint64_t)msg.size() * 8;
	m += (char)0x80;
	while (m.size() % 64 != 56)
		m += (char)0;
	for (int i = 7; i >= 0; i--)
		m += (char)((ml >> (8 * i)) & 0xff);
	auto rol = [](uint32_t x, int n) { return (x << n) | (x >> (32 - n)); };
	for (size_t off = 0; off < m.size(); off += 64)
	{
		uint32_t w[80];
		for (int i = 0; i < 16; i++)
			w[i] = ((uint32_t)(unsigned char)m[off + 4 * i] << 24) | ((uint32_t)(unsigned char)m[off + 4 * i + 1] << 16) | ((uint32_t)(unsigned char)m[off + 4 * i + 2] << 8) | (uint32_t)(unsigned char)m[off + 4 * i + 3];
		for (int i = 16; i < 80; i++)
			w[i] = rol(w[i - 3] ^ w[i - 8] ^ w[i - 14] ^ w[i - 16], 1);
		uint32_t a = h0, b = h1, c = h2, d = h3, e = h4;
		for (int i = 0; i < 80; i++)
		{
			uint32_t f, k;
			if (i < 20) { f = (b & c) | (~b & d); k = 0x5A827999; }
			else if (i < 40) { f = b ^ c ^ d; k = 0x6ED9EBA1; }
			else if (i < 60) { f = (b & c) | (b & d) | (c & d); k = 0x8F1BBCDC; }
			else { f = b ^ c ^ d; k = 0xCA62C1D6; }
			uint32_t t = rol(a, 5) + f + e + k + w[i];
			e = d; d = c; c = rol(b, 30); b = a; a = t;
		}
		h0 += a; h1 += b; h2 += c; h3 += d; h4 += e;
	}
	std::string out;
	for (uint32_t h : {h0, h1, h2, h3, h4})
		for (int i = 3; i >= 0; i--)
			out += (char)((h >> (8 * i)) & 0xff);
	return out;
}

inline std::string base64(const std::string& in)
{
	static const char* t = "ABCDEFGHIJKLMNOPQRSTUVWXYZabcdefghijklmnopqrstuvwxyz0123456789+/";
	std::string o;
	size_t i = 0;
	while (i + 2 < in.size())
	{
		uint32_t v = ((unsigned char)in[i] << 16) | ((unsigned char)in[i + 1] << 8) | (unsigned char)in[i + 2];
		o += t[v >> 18]; o += t[(v >> 12) & 63]; o += t[(v >> 6) & 63]; o += t[v & 63];
		i += 3;
	}
	if (in.size() - i == 1)
	{
		uint32_t v = (unsigned char)in[i] << 16;
		o += t[v >> 18]; o += t[(v >> 12) & 63]; o += "==";
	}
	else if (in.size() - i == 2)
	{
		uint32_t v = ((unsigned char)in[i] << 16) | ((unsigned char)in[i + 1] << 8);
		o += t[v >> 18]; o += t[(v >> 12) & 63]; o += t[(v >> 6) & 63]; o += '=';
	}
	return o;
}

inline std::string wsAccept(const std::string& key) { return base64(sha1(key + "258EAFA5-E914-47DA-95CA-C5AB0DC85B11")); }

// ---- RFC 6455 framing
struct Frame
{
	bool fin = true;
	int rsv = 0, opcode = 1;
	bool masked = false;
	uint32_t key = 0;
	std::string payload;
	int lenForm = 0;       // 0: 7-bit, 1: 16-bit, 2: 64-bit (as found on the wire)
	bool minimalLen = true;
};

// lenMode: 0 minimal, 1 force 16-bit, 2 force 64-bit
inline std::string encodeFrame(const Frame& f, int lenMode = 0)
{
	std::string o;
	o += (char)((f.fin ? 0x80 : 0) | ((f.rsv & 7) << 4) | (f.opcode & 15));
	uint64_t n = f.payload.size();
	int m = f.masked ? 0x80 : 0;
	if ((n < 126 && lenMode == 0))
		o += (char)(m | (int)n);
	else if ((n < 65536 && lenMode <= 1))
	{
		o += (char)(m | 126);
		o += (char)(n >> 8);
		o += (char)(n & 255);
	}
	else
	{
		o += (char)(m | 127);
		for (int i = 7; i >= 0; i--)
			o += (char)((n >> (8 * i)) & 255);
	}
	if (f.masked)
	{
		unsigned char k[4] = {(unsigned char)(f.key >> 24), (unsigned char)(f.key >> 16), (unsigned char)(f.key >> 8), (unsigned char)f.key};
		o.append((const char*)k, 4);
		for (size_t i = 0; i < f.payload.size(); i++)
			o += (char)((unsigned char)f.payload[i] ^ k[i & 3]);
	}
	else
		o += f.payload;
	return o;
}

// Parses one frame from buf at pos. Returns 1 ok (pos advanced), 0 need more bytes, -1 absurd (length >= 2^31).
inline int decodeFrame(const std::string& buf, size_t& pos, Frame& f)
{
	size_t p = pos;
	if (buf.size() < p + 2)
		return 0;
	unsigned char b0 = (unsigned char)buf[p], b1 = (unsigned char)buf[p + 1];
	p += 2;
	f.fin = (b0 & 0x80) != 0;
	f.rsv = (b0 >> 4) & 7;
	f.opcode = b0 & 15;
	f.masked = (b1 & 0x80) != 0;
	uint64_t n = b1 & 0x7f;
	f.lenForm = 0;
	f.minimalLen = true;
	if (n == 126)
	{
		if (buf.size() < p + 2)
			return 0;
		n = ((uint64_t)(unsigned char)buf[p] << 8) | (unsigned char)buf[p + 1];
		p += 2;
		f.lenForm = 1;
		f.minimalLen = n >= 126;
	}
	else if (n == 127)
	{
		if (buf.size() < p + 8)
			return 0;
		n = 0;
		for (int i = 0; i < 8; i++)
			n = (n << 8) | (unsigned char)buf[p + i];
		p += 8;
		f.lenForm = 2;
		f.minimalLen = n >= 65536;
	}
	if (n >= (1ULL << 31))
		return -1;
	unsigned char k[4] = {0, 0, 0, 0};
	f.key = 0;
	if (f.masked)
	{
		if (buf.size() < p + 4)
			return 0;
		for (int i = 0; i < 4; i++)
		{
			k[i] = (unsigned char)buf[p + i];
			f.key = (f.key << 8) | k[i];
		}
		p += 4;
	}
	if (buf.size() < p + n)
		return 0;
	f.payload.assign(buf, p, (size_t)n);
	if (f.masked)
		for (size_t i = 0; i < f.payload.size(); i++)
			f.payload[i] = (char)((unsigned char)f.payload[i] ^ k[i & 3]);
	pos = p + (size_t)n;
	return 1;
}

} // namespace ref
