// Independent strict RFC 8259 parser, a JSON writer with random but legal style, and a generator of JSON
// value trees. Used as oracle by the C05/C06 scenarios; shares no code with asl.
#pragma once
#include <cmath>
#include <string>
#include <vector>
#include <stdint.h>
#include <stdlib.h>
#include <string.h>
#include <math.h>
#include "sim/sim.h"

namespace ref {

struct JV
{
	enum T { NUL, BOOL, NUM, STR, ARR, OBJ } t = NUL;
	bool b = false;
	double d = 0;
	bool isInt = false;
	long long i = 0;
	bool isFloat = false; // generator only: value came from a float
	std::string s;
	std::vector<JV> a;
	std::vector<std::pair<std::string, JV>> o;
};

struct JParser
{
	const std::string& t;
	size_t p = 0;
	int depth = 0;
	bool rejectNulEscape = true, rejectLoneSurrogate = true;
	explicit JParser(const std::string& text) : t(text) {}
	void ws()
	{
		while (p < t.size() && (t[p] == ' ' || t[p] == '\t' || t[p] == '\n' || t[p] == '\r'))
			p++;
	}
	static void utf8(std::string& o, uint32_t c)
	{
		if (c < 0x80) o += (char)c;
		else if (c < 0x800) { o += (char)(0xC0 | (c >> 6)); o += (char)(0x80 | (c & 63)); }
		else if (c < 0x10000) { o += (char)(0xE0 | (c >> 12)); o += (char)(0x80 | ((c >> 6) & 63)); o += (char)(0x80 | (c & 63)); }
		else { o += (char)(0xF0 | (c >> 18)); o += (char)(0x80 | ((c >> 12) & 63)); o += (char)(0x80 | ((c >> 6) & 63)); o += (char)(0x80 | (c & 63)); }
	}
	bool hex4(uint32_t& v)
	{
		if (p + 4 > t.size())
			return false;
		v = 0;
		for (int i = 0; i < 4; i++)
		{
			char c = t[p + i];
			int d = c >= '0' && c <= '9' ? c - '0' : c >= 'a' && c <= 'f' ? c - 'a' + 10 : c >= 'A' && c <= 'F' ? c - 'A' + 10 : -1;
			if (d < 0)
				return false;
			v = v * 16 + (uint32_t)d;
		}
		p += 4;
		return true;
	}
	bool string(std::string& out)
	{
		if (p >= t.size() || t[p] != '"')
			return false;
		p++;
		while (p < t.size())
		{
			unsigned char c = (unsigned char)t[p];
			if (c == '"')
			{
				p++;
				return true;
			}
			if (c < 0x20)
				return false;
			if (c == '\\')
			{
				p++;
				if (p >= t.size())
					return false;
				char e = t[p++];
				switch (e)
				{
				case '"': out += '"'; break;
				case '\\': out += '\\'; break;
				case '/': out += '/'; break;
				case 'b': out += '\b'; break;
				case 'f': out += '\f'; break;
				case 'n': out += '\n'; break;
				case 'r': out += '\r'; break;
				case 't': out += '\t'; break;
				case 'u':
				{
					uint32_t v;
					if (!hex4(v))
						return false;
					if (v == 0 && rejectNulEscape)
						return false;
					if (v >= 0xD800 && v < 0xDC00)
					{
						uint32_t lo;
						if (p + 6 <= t.size() && t[p] == '\\' && t[p + 1] == 'u')
						{
							p += 2;
							if (!hex4(lo))
								return false;
							if (lo < 0xDC00 || lo > 0xDFFF)
								return false;
							v = 0x10000 + ((v - 0xD800) << 10) + (lo - 0xDC00);
						}
						else if (rejectLoneSurrogate)
							return false;
					}
					else if (v >= 0xDC00 && v <= 0xDFFF && rejectLoneSurrogate)
						return false;
					utf8(out, v);
					break;
				}
				default: return false;
				}
			}
			else
			{
				out += (char)c;
				p++;
			}
		}
		return false;
	}
	bool number(JV& v)
	{
		size_t s = p;
		if (p < t.size() && t[p] == '-')
			p++;
		if (p >= t.size())
			return false;
		if (t[p] == '0')
			p++;
		else if (t[p] >= '1' && t[p] <= '9')
			while (p < t.size() && isdigit((unsigned char)t[p]))
				p++;
		else
			return false;
		bool isInt = true;
		if (p < t.size() && t[p] == '.')
		{
			isInt = false;
			p++;
			if (p >= t.size() || !isdigit((unsigned char)t[p]))
				return false;
			while (p < t.size() && isdigit((unsigned char)t[p]))
				p++;
		}
		if (p < t.size() && (t[p] == 'e' || t[p] == 'E'))
		{
			isInt = false;
			p++;
			if (p < t.size() && (t[p] == '+' || t[p] == '-'))
				p++;
			if (p >= t.size() || !isdigit((unsigned char)t[p]))
				return false;
			while (p < t.size() && isdigit((unsigned char)t[p]))
				p++;
		}
		v.t = JV::NUM;
		std::string lex = t.substr(s, p - s);
		v.d = strtod(lex.c_str(), 0);
		v.isInt = isInt && lex.size() < 18;
		if (v.isInt)
			v.i = strtoll(lex.c_str(), 0, 10);
		return true;
	}
	bool value(JV& v)
	{
		ws();
		if (p >= t.size())
			return false;
		if (++depth > 5000)
			return false;
		bool ok = false;
		char c = t[p];
		if (c == '{')
		{
			p++;
			v.t = JV::OBJ;
			ws();
			if (p < t.size() && t[p] == '}')
			{
				p++;
				ok = true;
			}
			else
				for (;;)
				{
					ws();
					std::string k;
					if (!string(k))
						break;
					ws();
					if (p >= t.size() || t[p] != ':')
						break;
					p++;
					JV x;
					if (!value(x))
						break;
					v.o.push_back({k, x});
					ws();
					if (p < t.size() && t[p] == ',')
					{
						p++;
						continue;
					}
					if (p < t.size() && t[p] == '}')
					{
						p++;
						ok = true;
					}
					break;
				}
		}
		else if (c == '[')
		{
			p++;
			v.t = JV::ARR;
			ws();
			if (p < t.size() && t[p] == ']')
			{
				p++;
				ok = true;
			}
			else
				for (;;)
				{
					JV x;
					if (!value(x))
						break;
					v.a.push_back(x);
					ws();
					if (p < t.size() && t[p] == ',')
					{
						p++;
						continue;
					}
					if (p < t.size() && t[p] == ']')
					{
						p++;
						ok = true;
					}
					break;
				}
		}
		else if (c == '"')
		{
			v.t = JV::STR;
			ok = string(v.s);
		}
		else if (!t.compare(p, 4, "true"))
		{
			v.t = JV::BOOL;
			v.b = true;
			p += 4;
			ok = true;
		}
		else if (!t.compare(p, 5, "false"))
		{
			v.t = JV::BOOL;
			v.b = false;
			p += 5;
			ok = true;
		}
		else if (!t.compare(p, 4, "null"))
		{
			v.t = JV::NUL;
			p += 4;
			ok = true;
		}
		else
			ok = number(v);
		depth--;
		return ok;
	}
	bool document(JV& v)
	{
		if (!value(v))
			return false;
		ws();
		return p == t.size();
	}
};

inline bool parseJson(const std::string& text, JV& out)
{
	JParser p(text);
	return p.document(out);
}

// ---------------------------------------------------------------- generator of value trees
inline std::string genString(sim::Prng& r, bool utf8Only, int maxLen = 20)
{
	std::string s;
	int n = (int)r.below((uint32_t)maxLen + 1);
	for (int i = 0; i < n; i++)
	{
		switch (r.below(10))
		{
		case 0: s += (char)(1 + r.below(0x1f)); break;          // control characters
		case 1: s += "\"\\/"[r.below(3)]; break;
		case 2: JParser::utf8(s, 0x80 + r.below(0x780)); break;
		case 3: JParser::utf8(s, r.below(2) ? 0x800 + r.below(0xD000) : 0xE000 + r.below(0x1FFE)); break;
		case 4: JParser::utf8(s, 0x10000 + r.below(0x100000)); break;
		case 5:
			if (!utf8Only)
			{
				s += (char)(0x80 + r.below(0x80)); // arbitrary high byte (ill-formed UTF-8)
				break;
			}
			// fall through
		default: s += (char)(0x20 + r.below(0x5f)); break;
		}
	}
	return s;
}

inline double genDouble(sim::Prng& r)
{
	switch (r.below(12))
	{
	case 0: return 0.0;
	case 1: return -0.0;
	case 2: return 1.7976931348623157e308;
	case 3: return -1.7976931348623157e308;
	case 4: return 4.9406564584124654e-324;
	case 5: return 2.2250738585072009e-308 * (double)r.below(1000) / 1000.0; // denormals
	case 6: return (double)(int64_t)r.range(-1000000, 1000000);            // integral doubles
	case 7: return (double)(int64_t)r.range(-100000, 100000) / 64.0;
	case 8: return pow(10.0, (double)r.range(-300, 300));
	default:
	{
		for (;;)
		{
			uint64_t b = r.next();
			double d;
			memcpy(&d, &b, 8);
			if (isfinite(d))
				return d;
		}
	}
	}
}

inline JV genTree(sim::Prng& r, int depth, int& budget, bool utf8Only, bool identKeys)
{
	JV v;
	budget--;
	uint32_t k = r.below(depth <= 0 || budget <= 0 ? 6 : 9);
	switch (k)
	{
	case 0: v.t = JV::NUL; break;
	case 1: v.t = JV::BOOL; v.b = r.below(2); break;
	case 2:
		v.t = JV::NUM;
		v.isInt = true;
		v.i = r.below(6) == 0 ? (r.below(2) ? -2147483647LL - 1 : 2147483647LL) : (long long)r.range(-100000, 100000);
		if (r.below(8) == 0)
		{
			// integer literals around the 32-bit, 53-bit and decimal-digit boundaries (read as numbers, exact in a double)
			static const long long B[] = {2147483648LL, -2147483649LL, 4294967295LL, 4294967296LL, 999999999LL, 1000000000LL, 9999999999LL, 9007199254740992LL, -9007199254740992LL, 2147483646LL, -2147483647LL};
			v.i = B[r.below(sizeof B / sizeof B[0])];
		}
		v.d = (double)v.i;
		break;
	case 3:
		v.t = JV::NUM;
		v.d = genDouble(r);
		break;
	case 4:
	{
		v.t = JV::NUM;
		v.isFloat = true;
		float f;
		for (;;)
		{
			uint32_t b = (uint32_t)r.next();
			memcpy(&f, &b, 4);
			if (isfinite(f))
				break;
		}
		if (r.below(3) == 0)
			f = (float)r.range(-1000, 1000) / 8.0f;
		v.d = f;
		break;
	}
	case 5: v.t = JV::STR; v.s = genString(r, utf8Only, r.below(8) == 0 ? 200 : 20); break;
	case 6: case 7:
	{
		v.t = JV::ARR;
		int n = (int)r.below(6);
		for (int i = 0; i < n && budget > 0; i++)
			v.a.push_back(genTree(r, depth - 1, budget, utf8Only, identKeys));
		break;
	}
	default:
	{
		v.t = JV::OBJ;
		int n = (int)r.below(6);
		for (int i = 0; i < n && budget > 0; i++)
		{
			std::string key;
			if (identKeys)
			{
				static const char* a = "abcdefghijklmnopqrstuvwxyzABCDEFGHIJKLMNOPQRSTUVWXYZ_";
				key = std::string(1, a[r.below(53)]);
				int m = (int)r.below(8);
				for (int j = 0; j < m; j++)
					key += "abcdefghijklmnopqrstuvwxyzABCDEFGHIJKLMNOPQRSTUVWXYZ_0123456789"[r.below(63)];
			}
			else
				key = genString(r, utf8Only, 12);
			bool dup = false;
			for (auto& kv : v.o)
				if (kv.first == key)
					dup = true;
			if (dup)
				continue;
			v.o.push_back({key, genTree(r, depth - 1, budget, utf8Only, identKeys)});
		}
		break;
	}
	}
	return v;
}

// ---------------------------------------------------------------- writer with random legal style
inline void writeString(std::string& o, const std::string& s, sim::Prng& r, bool fancy)
{
	o += '"';
	for (size_t i = 0; i < s.size(); i++)
	{
		unsigned char c = (unsigned char)s[i];
		char b[16];
		if (c == '"') o += "\\\"";
		else if (c == '\\') o += "\\\\";
		else if (c == '/' && fancy && r.below(2)) o += "\\/";
		else if (c == '\n' && r.below(2)) o += "\\n";
		else if (c == '\t' && r.below(2)) o += "\\t";
		else if (c == '\r' && r.below(2)) o += "\\r";
		else if (c == '\b' && r.below(2)) o += "\\b";
		else if (c == '\f' && r.below(2)) o += "\\f";
		else if (c < 0x20)
		{
			snprintf(b, sizeof b, r.below(2) ? "\\u%04x" : "\\u%04X", c);
			o += b;
		}
		else if (fancy && c >= 0x20 && c < 0x7f && r.below(12) == 0)
		{
			snprintf(b, sizeof b, "\\u%04x", c);
			o += b;
		}
		else if (fancy && c >= 0xC0 && r.below(3) == 0)
		{
			// decode one well-formed UTF-8 sequence and write it as \uXXXX (surrogate pair if needed)
			int n = c >= 0xF0 ? 4 : c >= 0xE0 ? 3 : 2;
			if (i + (size_t)n <= s.size())
			{
				uint32_t cp = n == 4 ? (c & 7) : n == 3 ? (c & 15) : (c & 31);
				bool good = true;
				for (int k = 1; k < n; k++)
				{
					unsigned char cc = (unsigned char)s[i + (size_t)k];
					if ((cc & 0xC0) != 0x80)
						good = false;
					cp = (cp << 6) | (cc & 63);
				}
				if (good)
				{
					if (cp >= 0x10000)
					{
						uint32_t v = cp - 0x10000;
						snprintf(b, sizeof b, "\\u%04x\\u%04x", 0xD800 + (v >> 10), 0xDC00 + (v & 0x3ff));
					}
					else
						snprintf(b, sizeof b, "\\u%04x", cp);
					o += b;
					i += (size_t)n - 1;
					continue;
				}
			}
			o += (char)c;
		}
		else
			o += (char)c;
	}
	o += '"';
}

inline void wsp(std::string& o, sim::Prng& r, bool fancy)
{
	if (!fancy)
		return;
	int n = (int)r.below(3);
	for (int i = 0; i < n; i++)
		o += " \n\t\r"[r.below(4)];
}

inline void writeJson(std::string& o, const JV& v, sim::Prng& r, bool fancy)
{
	char b[64];
	switch (v.t)
	{
	case JV::NUL: o += "null"; break;
	case JV::BOOL: o += v.b ? "true" : "false"; break;
	case JV::NUM:
		if (v.isInt)
			snprintf(b, sizeof b, "%lld", v.i);
		else if (v.isFloat)
			snprintf(b, sizeof b, "%.9g", v.d);
		else if (fancy && v.d == std::floor(v.d) && std::fabs(v.d) >= 1e15 && std::fabs(v.d) < 1e60 && r.below(2))
		{
			// an integer-valued double written out as a plain digit string (20 to 60 digits): a valid JSON number that no
			// machine integer holds
			char big[96];
			snprintf(big, sizeof big, "%.0f", v.d);
			o += big;
			break;
		}
		else
			snprintf(b, sizeof b, r.below(2) ? "%.17g" : "%.17e", v.d);
		if (!strchr(b, '.') && !strchr(b, 'e') && !v.isInt && fancy && r.below(2))
			strcat(b, ".0");
		o += b;
		break;
	case JV::STR: writeString(o, v.s, r, fancy); break;
	case JV::ARR:
		o += '[';
		for (size_t i = 0; i < v.a.size(); i++)
		{
			if (i) o += ',';
			wsp(o, r, fancy);
			writeJson(o, v.a[i], r, fancy);
			wsp(o, r, fancy);
		}
		if (v.a.empty()) wsp(o, r, fancy);
		o += ']';
		break;
	case JV::OBJ:
		o += '{';
		for (size_t i = 0; i < v.o.size(); i++)
		{
			if (i) o += ',';
			wsp(o, r, fancy);
			writeString(o, v.o[i].first, r, fancy);
			wsp(o, r, fancy);
			o += ':';
			wsp(o, r, fancy);
			writeJson(o, v.o[i].second, r, fancy);
			wsp(o, r, fancy);
		}
		if (v.o.empty()) wsp(o, r, fancy);
		o += '}';
		break;
	}
}

} // namespace ref
