// C10 — the library's HTTP client and raw clients against the library's HTTP server on the simulated
// network: the handler must observe exactly what was sent, every client exactly what the handler produced
// for ITS request, under fragmentation, short sends, latency, back-pressure and many clients in flight.
#include "scen/http_common.inc"

namespace {

const int PORT = 18010;

// ops: req(kind, at_ms, seed, bodyLen, respLen, respKind, conn)
//      range(seed)   attached to the preceding file request: picks a satisfiable range
void genHttp(Prng& r, Plan& p, int tier)
{
	int n = (int)biased(r, 1, tier ? 24 : 8, {1, 2, 8});
	bool bigAllowed = r.below(tier ? 3 : 6) == 0;
	int conns = 0;
	for (int i = 0; i < n; i++)
	{
		int kind = (int)r.below(2);
		size_t lens[2];
		for (int k = 0; k < 2; k++)
		{
			int64_t hi = bigAllowed && r.below(3) == 0 ? (tier && r.below(20) == 0 ? 8 * 1024 * 1024 : 300 * 1024) : 3000;
			lens[k] = (size_t)biased(r, 0, hi, {0, 1, 255, 1024, 16000, 65536, 128000});
		}
		int conn = 0;
		if (kind == 1 && r.below(3) == 0)
			conn = conns > 0 && r.below(2) ? 1 + (int)r.below((uint32_t)conns) : ++conns;
		p.ops.push_back(op("req", {kind, (int64_t)r.below(r.below(2) ? 3 : 400), (int64_t)(r.next() >> 20), (int64_t)lens[0], (int64_t)lens[1], (int64_t)r.below(6), conn}));
		if (r.below(2))
			p.ops.push_back(op("range", {(int64_t)(r.next() >> 24)}));
	}
	p.p["files"] = 1 + r.below(3);
	p.p["file_seed"] = (int64_t)(r.next() >> 24);
	if (r.below(2))
		p.p["knob.net.frag"] = 10 + r.below(80);
	if (r.below(3) == 0)
		p.p["knob.net.short"] = 10 + r.below(80);
	if (r.below(3) == 0)
		p.p["knob.net.lat_us"] = 1 + r.below(100000);
	if (r.below(4) == 0)
		p.p["knob.net.sndbuf"] = 512 << r.below(8);
	if (p.p.count("knob.net.sndbuf"))
	{
		// a multi-megabyte body through a send buffer of a few hundred bytes is thousands of blocked sends and wake-ups:
		// legitimately beyond the step cap that judges termination. Keep the number of buffer fills per body below 2000.
		int64_t maxLen = 0;
		for (auto& o : p.ops)
			if (o.k == "req")
				maxLen = std::max(maxLen, std::max(o.arg(3), o.arg(4)));
		while (p.p["knob.net.sndbuf"] * 2000 < maxLen)
			p.p["knob.net.sndbuf"] *= 2;
	}
	if (r.below(2))
	{
		p.p["knob.http.send_block"] = (int64_t)biased(r, 1, 128000, {1, 7, 4096, 16000, 128000});
		// same fence for the library's own block size (a knob of the ASL_VERIF build): at most 20000 blocks per body
		int64_t maxLen = 0;
		for (auto& o : p.ops)
			if (o.k == "req")
				maxLen = std::max(maxLen, std::max(o.arg(3), o.arg(4)));
		while (p.p["knob.http.send_block"] * 20000 < maxLen)
			p.p["knob.http.send_block"] *= 2;
	}
	// relaxed configuration (reported separately): one connection is reset after k bytes
	if (r.below(6) == 0)
	{
		p.p["conn_reset"] = 1; // the scheduler stays fair (no starvation fault): blocking sends have no timeout in asl,
		                       // so a starved peer plus full buffers can deadlock both sides - outside any statement
		p.p["knob.net.reset_conn"] = r.below((uint32_t)n);
		p.p["knob.net.reset_after"] = r.below(2) ? r.below(600) : r.below(400000);
	}
}

struct Run
{
	std::vector<Spec> specs;
	std::map<std::string, std::string> files;
	TestHttp* srv = nullptr;
};

void checkHandler(const Spec& s)
{
	char key[64];
	if (s.handlerCalls > (s.redirect ? 2 : 1))
		sim::fail("handler_mismatch", "called_twice", "request %d: handler invoked %d times%s", s.id, s.handlerCalls, s.redirect ? " (one redirect, so two visits were expected)" : "");
	if (s.oMethod != s.method)
		sim::fail("handler_mismatch", "method", "request %d: sent method %s, handler saw %s", s.id, s.method.c_str(), s.oMethod.c_str());
	if (s.oPath != s.pathDecoded)
		sim::fail("handler_mismatch", "path", "request %d: target %s decodes to '%s', handler saw '%s'", s.id, printable(s.target, 80).c_str(), printable(s.pathDecoded).c_str(), printable(s.oPath).c_str());
	for (size_t i = 0; i < s.oQuery.size(); i++)
	{
		if (i >= s.query.size())
		{
			sim::fail("handler_mismatch", "query_count", "request %d: sent %zu query parameters, handler saw %s", s.id, s.query.size(), s.oQuery[i].second.c_str());
			break;
		}
		if (s.oQuery[i].second != s.query[i].second)
			sim::fail("handler_mismatch", "query", "request %d: query %s sent '%s', handler saw '%s'", s.id, s.query[i].first.c_str(), printable(s.query[i].second).c_str(), printable(s.oQuery[i].second).c_str());
	}
	for (size_t i = 0; i < s.oHeaders.size() && i < s.headers.size(); i++)
		if (s.oHeaders[i].second != s.headers[i].second)
			sim::fail("handler_mismatch", "header", "request %d: header %s sent '%s', handler saw '%s'", s.id, s.headers[i].first.c_str(), printable(s.headers[i].second).c_str(), printable(s.oHeaders[i].second).c_str());
	std::string seenBody = s.oBody;
	if (s.viaUpload)
	{
		// Http::upload wraps the file in one multipart/form-data part: --B CRLF part headers CRLF CRLF <file bytes> CRLF --B-- CRLF
		size_t bp = s.oContentType.find("boundary=");
		std::string b = bp == std::string::npos ? std::string() : s.oContentType.substr(bp + 9);
		std::string open = "--" + b + "\r\n", close = "\r\n--" + b + "--\r\n";
		size_t hdrEnd = s.oBody.find("\r\n\r\n");
		if (b.empty() || s.oBody.compare(0, open.size(), open) != 0 || hdrEnd == std::string::npos || s.oBody.size() < hdrEnd + 4 + close.size() ||
		    s.oBody.compare(s.oBody.size() - close.size(), close.size(), close) != 0)
		{
			sim::fail("handler_mismatch", "body;upload;multipart_frame", "request %d (Http::upload of a %zu-byte file): the body the handler saw (%zu bytes, Content-Type '%s') is not one well-formed multipart part", s.id, s.body.size(),
			          s.oBody.size(), printable(s.oContentType, 90).c_str());
			return;
		}
		seenBody = s.oBody.substr(hdrEnd + 4, s.oBody.size() - hdrEnd - 4 - close.size());
	}
	if (seenBody != s.body)
	{
		snprintf(key, sizeof key, "body;%s", s.chunkedUpload ? "chunked" : "length");
		sim::fail("handler_mismatch", key, "request %d (%s client): body of %zu bytes sent, handler saw %zu bytes, first difference at offset %zu", s.id, s.kind ? "raw" : "asl", s.body.size(), s.oBody.size(),
		          firstDiff(s.body, s.oBody));
	}
}

void expectedResponse(const Spec& s, const Run& R, int& code, std::string& body, bool& exact)
{
	exact = true;
	code = s.status;
	body = s.rbody;
	if (s.respKind == 3 || s.respKind == 4)
	{
		auto it = R.files.find(s.file);
		const std::string& f = it->second;
		if (s.rangeUnsat)
		{
			code = 416;
			body.clear();
		}
		else if (s.rangeB >= 0)
		{
			code = 206;
			body = f.substr((size_t)s.rangeB, (size_t)(s.rangeE - s.rangeB + 1));
		}
		else
		{
			code = 200;
			body = f;
		}
	}
}

void checkClient(const Spec& s, const Run& R)
{
	int code;
	std::string body;
	bool exact;
	expectedResponse(s, R, code, body, exact);
	const char* who = s.kind ? "raw" : "asl";
	if (!s.cIdEcho.empty() && s.cIdEcho != std::to_string(s.id))
		sim::fail("cross_talk", "id_echo", "request %d (%s client) received the response to request %s", s.id, who, s.cIdEcho.c_str());
	// shape of the requested range: the two edge shapes have their own keys (see known_findings.json)
	const char* shape = s.rangeB < 0 ? "" : s.rangeUnsat ? ";range_unsatisfiable" : s.rangeOpen ? ";range_open" : s.rangeE == 0 ? ";range_e_is_0" : s.rangeB == s.rangeE ? ";range_b_eq_e" : ";range";
	if (s.rangeUnsat)
	{
		// only "not a 2xx and no file bytes" is demanded of an unsatisfiable range
		if (s.cCode >= 200 && s.cCode < 300)
			sim::fail("response_mismatch", "code;file;range_unsatisfiable", "request %d (%s client, Range bytes=%ld-%ld on a shorter file) was answered with %d", s.id, who, s.rangeB, s.rangeE, s.cCode);
		return;
	}
	char key[64];
	if (s.viaUpload)
		return; // Http::upload shows the application a success flag only; what the handler saw is judged by checkHandler
	if (s.viaDownload)
	{
		// Http::download shows the application the body only (as a file)
		if (s.cBody != body)
		{
			snprintf(key, sizeof key, "body;download%s%s", s.redirect ? ";redirected" : "", shape);
			sim::fail("response_mismatch", key, "request %d (Http::download%s, response kind %d): body of %zu bytes produced, the downloaded file has %zu bytes, first difference at offset %zu", s.id,
			          s.redirect ? " through a redirect" : "", s.respKind, body.size(), s.cBody.size(), firstDiff(body, s.cBody));
		}
		return;
	}
	if (s.cCode != code)
	{
		snprintf(key, sizeof key, "code%s%s", (s.respKind == 3 || s.respKind == 4) ? ";file" : s.respKind == 5 ? ";stream" : "", shape);
		sim::fail("response_mismatch", key, "request %d (%s client%s): handler produced status %d, client saw %d (%s)", s.id, who, s.rangeB >= 0 ? (", Range bytes=" + std::to_string(s.rangeB) + "-" + std::to_string(s.rangeE)).c_str() : "", code,
		          s.cCode, s.cNote.c_str());
		return; // headers and body of a response with the wrong status are secondary
	}
	if (s.cBody != body)
	{
		snprintf(key, sizeof key, "body;kind%d%s", s.respKind, shape);
		sim::fail("response_mismatch", key, "request %d (%s client, response kind %d%s): body of %zu bytes produced, client saw %zu bytes, first difference at offset %zu", s.id, who, s.respKind,
		          s.rangeB >= 0 ? " range" : "", body.size(), s.cBody.size(), firstDiff(body, s.cBody));
	}
	for (size_t i = 0; i < s.rheaders.size(); i++)
	{
		std::string got = i < s.cHeaders.size() ? s.cHeaders[i].second : "\x01<absent>";
		if (got != s.rheaders[i].second)
			sim::fail("response_mismatch", "header", "request %d (%s client): response header %s produced '%s', client saw '%s'", s.id, who, s.rheaders[i].first.c_str(), printable(s.rheaders[i].second).c_str(),
			          printable(got).c_str());
	}
}

static bool g_relaxedRun = false;
void aslClient(Spec* s)
{
	sim::sleepFor(s->atMs * 0.001);
	asl::String url = asl::String::f("http://127.0.0.1:%i", PORT) + s->target.c_str();
	asl::Dic<> h;
	h["X-Id"] = asl::String::f("%i", s->id);
	for (auto& kv : s->headers)
		h[kv.first.c_str()] = kv.second.c_str();
	if (s->rangeB >= 0)
		h["Range"] = s->rangeOpen ? asl::String::f("bytes=%li-", s->rangeB) : asl::String::f("bytes=%li-%li", s->rangeB, s->rangeE);
	asl::ByteArray body((const asl::byte*)s->body.data(), (int)s->body.size());
	// the dictionary is the caller's: a request must send what it says at the time of the call, and a client that reuses
	// it for its next request must find it as it left it (headers the library adds belong to the request, not to the caller)
	const std::string hBefore = *h.join("\n", ": ");
	struct HeadersUntouched
	{
		const asl::Dic<>& h;
		const std::string& before;
		int id;
		~HeadersUntouched()
		{
			std::string after = *h.join("\n", ": ");
			if (after != before)
				sim::fail("request_headers", "caller_dictionary_modified", "request %d: the header dictionary passed to the client call came back changed (%zu -> %zu bytes when joined); reused for the next request it would send headers the application never set", id,
				          before.size(), after.size());
		}
	} untouched{h, hBefore, s->id};
	asl::HttpResponse res;
	if (s->method == "GET" && s->viaDownload)
	{
		// streaming sink: the body goes to a file while it arrives
		std::string path = "/sim/dl/" + std::to_string(s->id) + ".bin";
		asl::Http::download(url, path.c_str(), asl::Http::Progress(), h);
		s->cGot = true;
		s->cCode = -3; // not observable through download()
		sim::fs::get(path, s->cBody);
		return;
	}
	if (s->method == "POST" && s->viaUpload)
	{
		// the request body is a file on the simulated disk, streamed by the client
		std::string path = "/sim/up/" + std::to_string(s->id) + ".bin";
		sim::fs::put(path, s->body);
		asl::Http::upload(url, path.c_str(), h);
		s->cGot = true;
		s->cCode = -3; // upload() reports success only
		return;
	}
	if (s->method == "GET")
		res = asl::Http::get(url, h);
	else if (s->method == "DELETE")
		res = asl::Http::delet(url, h);
	else if (s->method == "POST")
		res = asl::Http::post(url, body, h);
	else if (s->method == "PUT")
		res = asl::Http::put(url, body, h);
	else
		res = asl::Http::patch(url, body, h);
	s->cCode = res.code();
	s->cGot = res.code() != 0;
	s->cNote = *res.socketError();
	s->cBody.assign((const char*)res.body().data(), (size_t)res.body().length());
	s->cIdEcho = *res.header("x-id-echo");
	for (auto& kv : s->rheaders)
	{
		std::string nm = kv.first;
		for (auto& c : nm)
			c = (char)tolower((unsigned char)c);
		s->cHeaders.push_back({kv.first, res.hasHeader(nm.c_str()) ? std::string(*res.header(nm.c_str())) : std::string("\x01<absent>")});
	}
	if (s->respKind == 2 && res.code() != 0 && !g_relaxedRun)
	{
		// compared through the encoder (null == null is false for asl::Var by design; value semantics are C04's subject)
		asl::Var v = res.json();
		asl::String e1 = asl::Json::encode(v), e2 = asl::Json::encode(s->rvar);
		if (!(e1 == e2))
			sim::fail("response_mismatch", "json", "request %d: json() of the response encodes to %s, the handler put %s", s->id, printable(*e1, 120).c_str(), printable(*e2, 120).c_str());
	}
	sim::event("asl client id=%d code=%d body=%d", s->id, s->cCode, res.body().length());
}

// one raw connection carrying one or several (non-pipelined) requests
void rawClient(std::vector<Spec*> group)
{
	sim::sleepFor(group[0]->atMs * 0.001);
	int fd = sim::net::rawConnectTcp(PORT);
	if (fd < 0)
	{
		for (auto* s : group)
			s->cNote = "connect failed";
		return;
	}
	std::string buf;
	bool alive = true;
	double connectedAt = sim::simNow();
	for (size_t gi = 0; gi < group.size(); gi++)
	{
		Spec* s = group[gi];
		if (!alive)
		{
			s->cNote = "connection gone before this request";
			continue;
		}
		bool keep = gi + 1 < group.size();
		Prng r(mix64((uint64_t)s->id, 991));
		std::string head = rawRequestHead(*s, keep, PORT);
		std::string payload = s->chunkedUpload ? chunkedEncode(s->body, r) : s->body;
		bool sent;
		if (s->expect100)
		{
			sent = rawSendFragmented(fd, head, s->frags);
			RawResponse c = rawReadResponse(fd, buf, 30.0, true);
			if (c.code != 100)
			{
				s->cNote = "no 100 Continue: " + c.note;
				if (c.code)
					sim::fail("response_mismatch", "expect_100", "request %d: Expect: 100-continue answered with %d", s->id, c.code);
			}
			sent = sent && rawSendFragmented(fd, payload, s->frags);
		}
		else
			sent = rawSendFragmented(fd, head + payload, s->frags);
		if (!sent)
		{
			s->cNote = "send failed";
			alive = false;
			continue;
		}
		if (!keep && s->halfClose)
		{
			// a client that has nothing more to send says so (shutdown(SHUT_WR)); the response is still owed
			sim::net::rawShutdownWrite(fd);
			sim::faultFired("peer_half_close");
		}
		if (gi > 0 && sim::simNow() - connectedAt < 6.0)
			s->cSentOnKeptAlive = true;
		RawResponse rr = rawReadResponse(fd, buf, 60.0);
		s->cGot = rr.anyByte;
		s->cNote = rr.note;
		if (rr.complete)
		{
			s->cCode = rr.code;
			s->cBody = rr.body;
			s->cIdEcho = rr.header("X-Id-Echo");
			for (auto& kv : s->rheaders)
			{
				bool has = false;
				for (auto& h : rr.headers)
					if (strcasecmp(h.first.c_str(), kv.first.c_str()) == 0)
						has = true;
				s->cHeaders.push_back({kv.first, has ? rr.header(kv.first) : std::string("\x01<absent>")});
			}
			std::string conn = rr.header("Connection");
			if (strcasecmp(conn.c_str(), "keep-alive") != 0)
				alive = keep ? false : alive;
		}
		else
		{
			s->cCode = rr.anyByte ? -2 : -1;
			alive = false;
		}
		sim::event("raw client id=%d code=%d body=%zu %s", s->id, s->cCode, s->cBody.size(), rr.note.c_str());
	}
	sim::net::rawClose(fd);
}

void runHttp(const Plan& p)
{
	Run R;
	g_relaxedRun = p.get("conn_reset") != 0;
	int nfiles = (int)std::max<int64_t>(1, std::min<int64_t>(4, p.get("files", 1)));
	uint64_t fseed = (uint64_t)p.get("file_seed");
	sim::fs::mkdirs("/sim/www");
	sim::fs::mkdirs("/sim/dl");
	sim::fs::mkdirs("/sim/up");
	for (int i = 0; i < nfiles; i++)
	{
		Prng r(mix64(fseed, (uint64_t)i));
		size_t len = (size_t)biased(r, 0, 40000, {0, 1, 2, 15999, 16000, 16001, 32000});
		std::string data = bodyOf(mix64(fseed, 100 + (uint64_t)i), len);
		R.files["/sim/www/f" + std::to_string(i) + ".bin"] = data;
		R.files["/sim/www/f" + std::to_string(i) + ".txt"] = data;
		sim::fs::put("/sim/www/f" + std::to_string(i) + ".bin", data);
		sim::fs::put("/sim/www/f" + std::to_string(i) + ".txt", data);
	}
	size_t nreq = 0;
	for (auto& o : p.ops)
		if (o.k == "req")
			nreq++;
	if (nreq > 64)
		nreq = 64;
	R.specs.resize(nreq);
	size_t i = 0;
	for (auto& o : p.ops)
	{
		if (o.k == "req" && i < nreq)
		{
			Spec& s = R.specs[i];
			size_t bl = (size_t)std::max<int64_t>(0, std::min<int64_t>(9000000, o.arg(3)));
			size_t rl = (size_t)std::max<int64_t>(0, std::min<int64_t>(9000000, o.arg(4)));
			buildSpec(s, (int)i, (int)(std::abs(o.arg(0)) & 1), (uint64_t)o.arg(2), bl, rl, (int)(std::abs(o.arg(5)) % 6), nfiles);
			s.atMs = (int)std::max<int64_t>(0, std::min<int64_t>(2000, o.arg(1)));
			s.conn = s.kind == 1 ? (int)(std::abs(o.arg(6)) % 8) : 0;
			i++;
		}
		else if (o.k == "range" && i > 0 && (R.specs[i - 1].respKind == 3 || R.specs[i - 1].respKind == 4))
		{
			Spec& s = R.specs[i - 1];
			size_t fl = R.files[s.file].size();
			if (fl > 0)
			{
				// RFC 7233 satisfiable range 0 <= b <= e < size
				Prng r(mix64((uint64_t)o.arg(0), 5));
				long b = (long)biased(r, 0, (int64_t)fl - 1, {0, (int64_t)fl - 1, (int64_t)fl / 2});
				long e = (long)biased(r, b, (int64_t)fl - 1, {b, b + 1, (int64_t)fl - 1});
				s.rangeB = b;
				s.rangeE = e;
				uint32_t shape = r.below(10);
				if (shape == 0)
				{
					s.rangeOpen = true; // "bytes=b-": to the last byte
					s.rangeE = (long)fl - 1;
				}
				else if (shape == 1)
				{
					s.rangeUnsat = true; // not satisfiable: must not be answered with a 2xx
					s.rangeB = (long)fl + (long)r.below(3);
					s.rangeE = s.rangeB + (long)r.below(10);
				}
			}
		}
	}
	R.srv = new TestHttp;
	R.srv->specs = &R.specs;
	R.srv->redirectPort = PORT;
	if (!R.srv->bind(PORT))
	{
		sim::fail("harness", "bind_failed", "bind failed");
		delete R.srv;
		return;
	}
	R.srv->start(true);
	// group raw keep-alive requests
	std::map<int, std::vector<Spec*>> groups;
	std::vector<std::vector<Spec*>> rawTasks;
	for (auto& s : R.specs)
		if (s.kind == 1)
		{
			if (s.conn == 0)
				rawTasks.push_back({&s});
			else
				groups[s.conn].push_back(&s);
		}
	for (auto& g : groups)
		rawTasks.push_back(g.second);
	std::vector<Task> tasks(R.specs.size() + rawTasks.size());
	size_t ti = 0;
	for (auto& s : R.specs)
		if (s.kind == 0)
		{
			Spec* sp = &s;
			tasks[ti++].start([sp]() { aslClient(sp); });
		}
	for (auto& g : rawTasks)
	{
		std::vector<Spec*> gg = g;
		tasks[ti++].start([gg]() { rawClient(gg); });
	}
	for (size_t k = 0; k < ti; k++)
		tasks[k].join();
	R.srv->stop(true);
	int dots = R.srv->dots;
	delete R.srv;
	R.srv = nullptr;
	sim::sleepFor(3.0);

	sim::NoSched ns;
	if (p.get("conn_reset"))
	{
		// a connection was reset at an arbitrary byte: a request may fail or be cut short, it may never deliver wrong
		// data, and everything has terminated (we are here). Requests that completed normally must still be exact.
		sim::probe("relaxed_run");
		for (auto& s : R.specs)
		{
			if (s.handlerCalls > 0)
			{
				if (!s.viaUpload && (s.oBody.size() > s.body.size() || s.body.compare(0, s.oBody.size(), s.oBody) != 0))
					sim::fail("relaxed_wrong_data", "handler_body", "request %d under a connection reset: the handler saw body bytes that were never sent", s.id);
				if (s.oMethod != s.method)
					sim::fail("relaxed_wrong_data", "method", "request %d under a connection reset: handler saw method %s", s.id, s.oMethod.c_str());
			}
			if (!s.cIdEcho.empty() && s.cIdEcho != std::to_string(s.id))
				sim::fail("cross_talk", "id_echo;relaxed", "request %d received the response to request %s", s.id, s.cIdEcho.c_str());
			if (s.cCode >= 200 && s.cCode < 300 && s.handlerCalls > 0)
			{
				int code;
				std::string body;
				bool exact;
				expectedResponse(s, R, code, body, exact);
				if (s.cBody.size() > body.size() || body.compare(0, s.cBody.size(), s.cBody) != 0)
					sim::fail("relaxed_wrong_data", "client_body", "request %d under a connection reset: the client got body bytes the handler never produced (kind %d)", s.id, s.respKind);
			}
		}
		sim::setNontrivial();
		return;
	}
	int overlapHint = 0;
	std::set<int> firstOfGroup;
	for (auto& g : groups)
		firstOfGroup.insert(g.second[0]->id);
	for (auto& s : R.specs)
	{
		bool later = s.kind == 1 && s.conn != 0 && !firstOfGroup.count(s.id);
		if (s.body.size() > 16000 || s.rbody.size() > 16000 || R.specs.size() >= 2)
			overlapHint = 1;
		if (later && s.handlerCalls == 0)
		{
			// kept-alive connection: the server may have left its loop (10 s budget) - then nothing at all may have come back
			sim::probe("keepalive_request_not_served");
			// the server announced keep-alive, its 10 s connection budget was far from used up and the request was sent in full:
			// nothing entitles it to ignore this request
			if (s.cSentOnKeptAlive)
				sim::fail("handler_mismatch", "keepalive_request_ignored", "request %d (%s %s) was sent on a connection the server had kept alive %s and got no handler call (client: %s)", s.id, s.method.c_str(),
				          s.chunkedUpload ? "chunked" : "with length", "less than 6 simulated seconds after connecting", s.cNote.c_str());
			if (s.cGot)
				sim::fail("response_mismatch", "keepalive_partial", "request %d on a kept-alive connection: handler not invoked but response bytes arrived", s.id);
			continue;
		}
		if (later)
			sim::probe("keepalive_request_served");
		if (s.handlerCalls == 0)
		{
			if (s.method == "OPTIONS")
				continue;
			sim::fail("handler_mismatch", "not_called", "request %d (%s client): handler never invoked (client code %d, %s)", s.id, s.kind ? "raw" : "asl", s.cCode, s.cNote.c_str());
			continue;
		}
		if (s.redirect && s.handlerCalls == 2)
			sim::probe("redirect_followed");
		if (s.viaDownload)
			sim::probe(s.redirect ? "download_through_redirect" : "download");
		if (s.viaUpload)
			sim::probe("upload_from_file");
		checkHandler(s);
		checkClient(s, R);
	}
	if (dots)
		sim::fail("dotdot_path", "c10", "handler saw a path containing '..'");
	if (overlapHint)
		sim::setNontrivial();
}

} // namespace

REGISTER_SCENARIO(c10_http, "C10", "http_exchange", genHttp, runHttp, 12000, 600000, {4, 16, 64, 256}, 0, 8000000, 30000.0,
                  "non-trivial: >=2 requests in one run (handlers can overlap) or a body above one 16000-byte read block; distinct by plan hash x context-switch signature",
                  "src/Http.cpp (client, headers, body, chunked decoding, files, ranges), src/HttpServer.cpp, src/Socket.cpp, src/SocketServer.cpp, src/File.cpp, src/Xdl.cpp/Var.cpp (JSON bodies), Thread.h",
                  "network (TCP stream stub with fragmentation, short sends, latency, bounded send buffer), disk (/sim/www), clock, pthread primitives; raw clients and their HTTP reader are harness code", false);
