// C18 — IniFile and TabularDataFile persistence on the simulated disk.
#include "scen/common.h"
#include "sim/fs.h"
#include <asl/IniFile.h>
#include <asl/TabularDataFile.h>
#include <asl/TextFile.h>
#include <asl/File.h>
#include <math.h>

using namespace scn;

namespace {

// ================================================================ INI
struct IniLine
{
	int kind; // 0 blank, 1 comment, 2 section header, 3 key=value
	std::string text, section, key, value;
};

std::string keyOf(Prng& r)
{
	static const char* first = "abcdefghijklmnopqrstuvwxyzABCDEFGHIJKLMNOPQRSTUVWXYZ0123456789_";
	static const char* rest = "abcdefghijklmnopqrstuvwxyzABCDEFGHIJKLMNOPQRSTUVWXYZ0123456789_.-";
	std::string k(1, first[r.below(63)]);
	int n = (int)r.below(10);
	for (int i = 0; i < n; i++)
		k += rest[r.below(65)];
	return k;
}
std::string valueOf(Prng& r)
{
	static const char* a = "abcdefghijklmnopqrstuvwxyzABCDEFGHIJKLMNOPQRSTUVWXYZ0123456789 !\"#$%&'()*+,-./:;<=>?@[\\]^_`{|}~\xc3\xa9";
	size_t al = strlen(a);
	int n = (int)r.below(r.below(6) == 0 ? 300 : 24);
	std::string v;
	for (int i = 0; i < n; i++)
		v += a[r.below((uint32_t)al)];
	while (!v.empty() && (v.front() == ' '))
		v.erase(0, 1);
	while (!v.empty() && (v.back() == ' '))
		v.pop_back();
	return v;
}
std::string sectionOf(Prng& r)
{
	static const char* a = "abcdefghijklmnopqrstuvwxyzABCDEFGHIJKLMNOPQRSTUVWXYZ0123456789_ .-:";
	int n = 1 + (int)r.below(10);
	std::string s;
	for (int i = 0; i < n; i++)
		s += a[r.below(67)];
	while (!s.empty() && s.front() == ' ') s.erase(0, 1);
	while (!s.empty() && s.back() == ' ') s.pop_back();
	if (s.empty() || s == "-")
		s = "sec";
	return s;
}

// ops: ini(seed, nsections, crlf, finalNewline, indent)  set(secIdx(-1 new), keyIdx(-1 new), seed)  wr(explicit)  csv(...)
void genIni(Prng& r, Plan& p, int)
{
	p.ops.push_back(op("ini", {(int64_t)(r.next() >> 20), (int64_t)r.below(4), (int64_t)r.below(2), (int64_t)r.below(2), (int64_t)r.below(3)}));
	int n = (int)r.below(r.below(4) == 0 ? 21 : 6);
	for (int i = 0; i < n; i++)
		p.ops.push_back(op("set", {(int64_t)r.range(-1, 3), (int64_t)r.range(-1, 4), (int64_t)(r.next() >> 20)}));
	p.p["explicit_write"] = r.below(2);
	p.p["exists"] = r.below(8) != 0;
	p.p["write_fault"] = r.below(5) == 0;
	p.p["write_elsewhere"] = r.below(5) == 0; // a copy is written to another path first (a backup); the object's own file is still written afterwards
}

void runIni(const Plan& p)
{
	const char* path = "/sim/cfg/settings.ini";
	sim::fs::mkdirs("/sim/cfg");
	std::vector<IniLine> lines;
	std::vector<std::string> sections;
	std::map<std::string, std::vector<std::string>> keysOf;
	std::map<std::string, std::string> model; // "section/key" -> value
	bool crlf = false, finalNl = true;
	std::string indent;
	std::string text;
	bool exists = p.get("exists", 1) != 0;
	for (auto& o : p.ops)
	{
		if (o.k != "ini" || !lines.empty())
			continue;
		Prng r((uint64_t)o.arg(0));
		int ns = (int)std::max<int64_t>(0, std::min<int64_t>(5, o.arg(1)));
		crlf = o.arg(2) != 0;
		finalNl = o.arg(3) != 0;
		indent = o.arg(4) == 1 ? "  " : o.arg(4) == 2 ? "\t" : "";
		if (r.below(2))
			lines.push_back({1, std::string(r.below(2) ? "# " : "; ") + valueOf(r), "", "", ""});
		for (int s = 0; s < ns; s++)
		{
			std::string sec;
			do
			{
				sec = sectionOf(r);
				// section names that are prefixes / extensions of one another, in either order
				if (!sections.empty() && r.below(3) == 0)
				{
					const std::string& other = sections[r.below((uint32_t)sections.size())];
					sec = r.below(2) ? other + std::string(1, "0abX_"[r.below(5)]) : (other.size() > 1 ? other.substr(0, other.size() - 1) : other + "x");
					while (!sec.empty() && sec.back() == ' ')
						sec.pop_back();
					if (sec.empty() || sec == "-")
						sec = "s";
				}
			} while (std::find(sections.begin(), sections.end(), sec) != sections.end());
			sections.push_back(sec);
			lines.push_back({2, "[" + sec + "]", sec, "", ""});
			int nk = (int)r.below(5);
			for (int k = 0; k < nk; k++)
			{
				if (r.below(5) == 0)
					lines.push_back({1, indent + (r.below(2) ? "#" : ";") + valueOf(r), "", "", ""});
				if (r.below(8) == 0)
					lines.push_back({0, "", "", "", ""});
				std::string key;
				do
					key = keyOf(r);
				while (std::find(keysOf[sec].begin(), keysOf[sec].end(), key) != keysOf[sec].end());
				keysOf[sec].push_back(key);
				std::string val = valueOf(r);
				const char* eq = r.below(3) == 0 ? " = " : "=";
				lines.push_back({3, indent + key + eq + val, sec, key, val});
				model[sec + "/" + key] = val;
			}
			if (r.below(2))
				lines.push_back({0, "", "", "", ""});
		}
		// the last line must be a key line sometimes, so that "no trailing newline" bites
		for (size_t i = 0; i < lines.size(); i++)
		{
			text += lines[i].text;
			if (i + 1 < lines.size() || finalNl)
				text += crlf ? "\r\n" : "\n";
		}
	}
	if (exists)
		sim::fs::put(path, text);
	else
	{
		lines.clear();
		model.clear();
		sections.clear();
		keysOf.clear();
	}
	std::map<std::string, std::string> untouched = model;
	std::set<std::string> touchedKeys;
	int nsets = 0;
	{
		asl::IniFile ini(path);
		if (exists && !ini.ok())
			sim::fail("ini_read", "not_ok", "IniFile reports !ok() for an existing readable file");
		for (auto& o : p.ops)
		{
			if (o.k != "set" || nsets >= 20)
				continue;
			Prng r((uint64_t)o.arg(2));
			std::string sec, key;
			int si = (int)o.arg(0), ki = (int)o.arg(1);
			if (si >= 0 && !sections.empty())
				sec = sections[(size_t)si % sections.size()];
			else
			{
				sec = sectionOf(r);
				if (!sections.empty() && r.below(2))
				{
					const std::string& other = sections[r.below((uint32_t)sections.size())];
					sec = other.size() > 1 && r.below(2) ? other.substr(0, other.size() - 1) : other + "2";
					while (!sec.empty() && sec.back() == ' ')
						sec.pop_back();
					if (sec.empty() || sec == "-")
						sec = "s2";
				}
				if (std::find(sections.begin(), sections.end(), sec) == sections.end())
					sections.push_back(sec);
			}
			if (ki >= 0 && !keysOf[sec].empty())
				key = keysOf[sec][(size_t)ki % keysOf[sec].size()];
			else
			{
				key = keyOf(r);
				if (std::find(keysOf[sec].begin(), keysOf[sec].end(), key) == keysOf[sec].end())
					keysOf[sec].push_back(key);
			}
			std::string val = valueOf(r);
			ini.set(asl::String((sec + "/" + key).c_str()), asl::String(val.c_str()));
			model[sec + "/" + key] = val;
			touchedKeys.insert(sec + "/" + key);
			untouched.erase(sec + "/" + key);
			nsets++;
		}
		if (p.get("write_fault") && nsets > 0)
		{
			// a disk fault at an arbitrary moment: the file cannot be opened for this one write attempt (the directory was
			// briefly unavailable); nothing may be marked as saved, and the next write - the destructor's - must store the values
			sim::fs::arm(sim::fs::F_OPEN_FAIL, 0, 13);
			ini.write();
			if (sim::fs::fired())
				sim::faultFired("open_fails_during_write");
			sim::fs::disarm();
		}
		if (p.get("write_elsewhere") && nsets > 0)
		{
			ini.write("/sim/backup.ini");
			sim::probe("written_to_another_path_first");
		}
		if (p.get("explicit_write"))
			ini.write();
	} // destruction writes too
	sim::NoSched ns;
	if (nsets > 0 && !untouched.empty())
		sim::setNontrivial();
	sim::mixCaseSig((uint64_t)finalNl * 2 + crlf);
	std::string out;
	bool onDisk = sim::fs::get(path, out);
	if (!onDisk)
	{
		if (!model.empty() && nsets > 0)
		{
			bool anyNonEmpty = false;
			for (auto& kv : model)
				if (!kv.second.empty())
					anyNonEmpty = true;
			if (anyNonEmpty)
				sim::fail("ini_persist", "file_missing", "no file was written although values were set");
		}
		return;
	}
	for (int which = 0; which < (p.get("write_elsewhere") && nsets > 0 ? 2 : 1); which++)
	{
		// (second round: the copy that was written explicitly to another path holds the same values)
		asl::IniFile fresh(which ? "/sim/backup.ini" : path, false);
		for (auto& kv : model)
		{
			asl::String got = ((const asl::IniFile&)fresh)[asl::String(kv.first.c_str())];
			if (std::string(*got, (size_t)got.length()) != kv.second)
			{
				bool wasSet = touchedKeys.count(kv.first) > 0;
				bool lastLine = !lines.empty() && lines.back().kind == 3 && lines.back().section + "/" + lines.back().key == kv.first;
				std::string key = wasSet ? "set_value" : "untouched_value";
				if (which)
					key += ";copy_written_to_another_path";
				else if (p.get("write_elsewhere"))
					key += ";after_writing_a_copy_elsewhere";
				if (!finalNl && lastLine)
					key += ";last_line_without_newline";
				sim::fail("ini_persist", key.c_str(), "%s value %s: expected '%s', a fresh IniFile returns '%s' (%d set() calls, original %s trailing newline, %s)", wasSet ? "set" : "untouched pre-existing", kv.first.c_str(),
				          kv.second.c_str(), *got, nsets, finalNl ? "with" : "without", crlf ? "CRLF" : "LF");
				break;
			}
		}
	}
	// relative order of comment lines and untouched entries in the raw text
	if (exists)
	{
		std::vector<std::string> want, got;
		for (auto& l : lines)
		{
			if (l.kind == 1)
				want.push_back("#" + l.text.substr(l.text.find_first_not_of(" \t")));
			else if (l.kind == 3 && !touchedKeys.count(l.section + "/" + l.key))
				want.push_back("k" + l.section + "/" + l.key);
		}
		std::string cur;
		size_t pos = 0;
		while (pos <= out.size())
		{
			size_t e = out.find('\n', pos);
			std::string l = out.substr(pos, e == std::string::npos ? std::string::npos : e - pos);
			if (!l.empty() && l.back() == '\r')
				l.pop_back();
			size_t f = l.find_first_not_of(" \t");
			if (f != std::string::npos)
			{
				if (l[0] == '[' && l.find(']') != std::string::npos)
					cur = l.substr(1, l.find(']') - 1);
				else if (l[f] == '#' || l[f] == ';')
					got.push_back("#" + l.substr(f));
				else if (l.find('=') != std::string::npos)
				{
					std::string k = l.substr(f, l.find('=') - f);
					while (!k.empty() && (k.back() == ' ' || k.back() == '\t'))
						k.pop_back();
					if (!touchedKeys.count(cur + "/" + k))
						got.push_back("k" + cur + "/" + k);
				}
			}
			if (e == std::string::npos)
				break;
			pos = e + 1;
		}
		if (got != want)
		{
			size_t i = 0;
			while (i < got.size() && i < want.size() && got[i] == want[i])
				i++;
			sim::fail("ini_order", "comments_and_untouched", "comment lines / untouched entries changed: %zu expected, %zu found; first difference at item %zu (expected '%s', found '%s')", want.size(), got.size(), i,
			          i < want.size() ? want[i].c_str() : "<none>", i < got.size() ? got[i].c_str() : "<none>");
		}
	}
}

// ================================================================ CSV
// ops: tab(seed, rows, cols, flushEvery)
void genCsv(Prng& r, Plan& p, int)
{
	p.ops.push_back(op("tab", {(int64_t)(r.next() >> 20), (int64_t)biased(r, 0, 30, {0, 1, 30}), (int64_t)biased(r, 1, 8, {1, 2, 8}), (int64_t)r.below(4), (int64_t)(r.below(3) == 0)})); // last: the ';' / decimal-comma flavour
}

struct Cell
{
	int kind; // 0 int, 1 double, 2 string
	long iv;
	double dv;
	std::string sv;
};

void runCsv(const Plan& p)
{
	const char* path = "/sim/data/table.csv";
	sim::fs::mkdirs("/sim/data");
	for (auto& o : p.ops)
	{
		if (o.k != "tab")
			continue;
		Prng r((uint64_t)o.arg(0));
		int rows = (int)std::max<int64_t>(0, std::min<int64_t>(60, o.arg(1))), cols = (int)std::max<int64_t>(1, std::min<int64_t>(12, o.arg(2)));
		// the reader recognises the ';' flavour (with ',' as decimal mark) by the ';' in the header line, so it needs two columns
		const bool semicolon = (o.arg(4) & 1) && cols >= 2;
		std::vector<std::string> names;
		for (int c = 0; c < cols; c++)
		{
			static const char* a = "abcdefghijklmnopqrstuvwxyzABCDEFGHIJKLMNOPQRSTUVWXYZ _";
			std::string nme(1, a[r.below(52)]);
			int n = (int)r.below(8);
			for (int i = 0; i < n; i++)
				nme += a[r.below(54)];
			nme += std::to_string(c);
			names.push_back(nme);
		}
		std::vector<std::vector<Cell>> table((size_t)rows, std::vector<Cell>((size_t)cols));
		bool needsQuotes = false;
		static const char* sa = "abcdefghijklmnopqrstuvwxyzABCDEFGHIJKLMNOPQRSTUVWXYZ ,;\"' _:()#";
		size_t sal = strlen(sa);
		for (auto& row : table)
			for (auto& c : row)
			{
				switch (r.below(4))
				{
				case 0:
					c.kind = 0;
					c.iv = (long)r.range(-1000000, 1000000);
					break;
				case 1:
				{
					c.kind = 1;
					double m = (double)(int64_t)r.range(-999999999999999LL, 999999999999999LL);
					int e = r.below(4) == 0 ? (int)r.range(-320, 290) : (int)r.range(-20, 5);
					c.dv = m * pow(10.0, e);
					break;
				}
				default:
				{
					c.kind = 2;
					int n = (int)r.below(r.below(4) == 0 ? 1 : 14);
					for (int i = 0; i < n; i++)
						c.sv += sa[r.below((uint32_t)sal)];
					// fence: string cells must not look like numbers to the documented auto-detection
					if (!c.sv.empty() && (isdigit((unsigned char)c.sv[0]) || c.sv[0] == '-' || c.sv[0] == '.' || (semicolon && c.sv[0] == ',')))
						c.sv[0] = 'x';
					if (c.sv.find(semicolon ? ';' : ',') != std::string::npos || c.sv.find('"') != std::string::npos)
						needsQuotes = true;
					if (semicolon && c.sv.find(',') != std::string::npos)
						sim::probe("string_cell_with_the_decimal_mark");
				}
				}
			}
		{
			asl::TabularDataFile f(path);
			if (semicolon)
			{
				f.setSeparator(';');
				f.setDecimal(',');
			}
			asl::Array<asl::String> cn;
			for (auto& n : names)
				cn << asl::String(n.c_str());
			f.columns(cn);
			if (o.arg(3) > 0)
				f.flushEvery((int)o.arg(3));
			for (auto& row : table)
				for (auto& c : row)
				{
					if (c.kind == 0)
						f << asl::Var((int)c.iv);
					else if (c.kind == 1)
						f << asl::Var(c.dv);
					else
						f << asl::Var(asl::String(c.sv.c_str()));
				}
		}
		sim::NoSched ns;
		if (needsQuotes)
			sim::setNontrivial();
		sim::mixCaseSig((uint64_t)rows * 16 + (uint64_t)cols);
		asl::TabularDataFile g(path);
		int rr = 0;
		bool bad = false;
		while (g.nextRow() && !bad)
		{
			if (rr >= rows)
			{
				// a trailing empty row is what the final newline yields; anything else is an extra row
				bool empty = g.row().length() <= 1 && (!g.row().length() || g.row()[0].toString() == "");
				if (!empty)
					sim::fail("csv_mismatch", "extra_row", "%d rows written, a further non-empty row was read", rows);
				break;
			}
			if (g.row().length() != cols)
			{
				sim::fail("csv_mismatch", "column_count", "row %d: %d cells written, %d read", rr, cols, g.row().length());
				break;
			}
			for (int c = 0; c < cols; c++)
			{
				const Cell& w = table[(size_t)rr][(size_t)c];
				asl::Var v = g[c];
				if (w.kind == 2)
				{
					asl::String s = v.toString();
					if (!v.is(asl::Var::STRING) || std::string(*s, (size_t)s.length()) != w.sv)
					{
						sim::fail("csv_mismatch", "string_cell", "row %d col %d: string '%s' written, read back as %s '%s'", rr, c, w.sv.c_str(), v.is(asl::Var::STRING) ? "string" : "non-string", *s);
						bad = true;
						break;
					}
				}
				else
				{
					double want = w.kind == 0 ? (double)w.iv : w.dv;
					double got = v.is(asl::Var::NUMBER) || v.is(asl::Var::INT) || v.is(asl::Var::FLOAT) ? (double)v : NAN;
					double tol = fabs(want) * 1e-14;
					if (!(fabs(got - want) <= tol))
					{
						sim::fail("csv_mismatch", w.kind == 0 ? "int_cell" : "double_cell", "row %d col %d: number %.17g written, read back as %.17g", rr, c, want, got);
						bad = true;
						break;
					}
				}
			}
			rr++;
		}
		if (!bad && rr < rows)
			sim::fail("csv_mismatch", "missing_rows", "%d rows written, %d read", rows, rr);
		break;
	}
}

const char* REAL18 = "src/IniFile.cpp, src/TabularDataFile.cpp, src/TextFile.cpp, src/File.cpp, Var number formatting (src/Var.cpp), glibc stdio";
const char* STUB18 = "VFS (in-memory tree behind fopencookie), clock";

} // namespace

REGISTER_SCENARIO(c18_ini, "C18", "ini", genIni, runIni, 100000, 6000000, {1}, 0, 2000000, 300.0,
                  "non-trivial: the INI text pre-exists with >=1 key that is not touched and >=1 set() call; distinct by plan hash x (final newline, CRLF)", REAL18, STUB18, false);
REGISTER_SCENARIO(c18_csv, "C18", "csv", genCsv, runCsv, 40000, 3000000, {1}, 0, 2000000, 300.0, "non-trivial: the table has a cell that needs quoting (contains the separator or a quote); distinct by plan hash", REAL18, STUB18, false);
