// C05 — JSON/XDL round trip, file clause on the simulated disk (chunk boundary in every parser state).
// C06 — incremental decoding: any partition of a text into chunks gives the same result as whole delivery;
//       valid documents are accepted with the value an independent parser gives; truncated ones are rejected.
#include "scen/common.h"
#include "scen/ref/json_ref.h"
#include "sim/fs.h"
#include <asl/Xdl.h>
#include <asl/JSON.h>
#include <asl/Var.h>
#include <asl/TextFile.h>

using namespace scn;

namespace {

asl::Var build(const ref::JV& j)
{
	switch (j.t)
	{
	case ref::JV::NUL: return asl::Var(asl::Var::NUL);
	case ref::JV::BOOL: return asl::Var(j.b);
	case ref::JV::NUM:
		if (j.isInt && j.i >= -2147483647LL - 1 && j.i <= 2147483647LL)
			return asl::Var((int)j.i);
		if (j.isFloat)
			return asl::Var((float)j.d);
		return asl::Var(j.d);
	case ref::JV::STR: return asl::Var(asl::String(j.s.c_str()));
	case ref::JV::ARR:
	{
		asl::Var v = asl::Var::ARRAY;
		for (auto& x : j.a)
			v << build(x);
		return v;
	}
	default:
	{
		asl::Var v = asl::Var::OBJ;
		for (auto& kv : j.o)
			v[asl::String(kv.first.c_str())] = build(kv.second);
		return v;
	}
	}
}

// the statement's equivalence: structure, keys, strings, booleans, numbers numerically (non-zero doubles bit for bit,
// floats exactly as floats, ints exactly); the sign of zero and the int/double tag are not compared
std::string cmp(const asl::Var& v, const ref::JV& j, const std::string& path)
{
	char b[200];
	switch (j.t)
	{
	case ref::JV::NUL:
		if (!v.is(asl::Var::NUL))
			return path + ": expected null";
		return "";
	case ref::JV::BOOL:
		if (!v.is(asl::Var::BOOL) || (bool)v != j.b)
			return path + ": expected boolean " + (j.b ? "true" : "false");
		return "";
	case ref::JV::NUM:
	{
		if (!v.is(asl::Var::NUMBER))
			return path + ": expected a number";
		double got = (double)v;
		bool ok = j.isFloat ? (float)got == (float)j.d : (j.d == 0 ? got == 0 : got == j.d);
		if (!ok)
		{
			snprintf(b, sizeof b, ": number %.17g (%s) came back as %.17g", j.d, j.isInt ? "int" : j.isFloat ? "float" : "double", got);
			return path + b;
		}
		return "";
	}
	case ref::JV::STR:
	{
		if (!v.is(asl::Var::STRING))
			return path + ": expected a string";
		asl::String s = v;
		if (std::string(*s, (size_t)s.length()) != j.s)
		{
			snprintf(b, sizeof b, ": string of %zu bytes came back as %d bytes", j.s.size(), s.length());
			return path + b;
		}
		return "";
	}
	case ref::JV::ARR:
	{
		if (!v.is(asl::Var::ARRAY))
			return path + ": expected an array";
		if (v.length() != (int)j.a.size())
		{
			snprintf(b, sizeof b, ": array of %zu elements came back with %d", j.a.size(), v.length());
			return path + b;
		}
		for (size_t i = 0; i < j.a.size(); i++)
		{
			std::string e = cmp(v[(int)i], j.a[i], path + "[" + std::to_string(i) + "]");
			if (!e.empty())
				return e;
		}
		return "";
	}
	default:
	{
		if (!v.is(asl::Var::OBJ))
			return path + ": expected an object";
		asl::Dic<asl::Var> o = v.object();
		if (o.length() != (int)j.o.size())
		{
			snprintf(b, sizeof b, ": object of %zu members came back with %d", j.o.size(), o.length());
			return path + b;
		}
		for (auto& kv : j.o)
		{
			asl::String k(kv.first.c_str());
			if (!o.has(k))
				return path + ": member with a key of " + std::to_string(kv.first.size()) + " bytes is missing";
			std::string e = cmp(o[k], kv.second, path + "." + (kv.first.size() < 12 ? kv.first : "<key>"));
			if (!e.empty())
				return e;
		}
		return "";
	}
	}
}

bool hasFloat(const ref::JV& j)
{
	if (j.t == ref::JV::NUM && j.isFloat)
		return true;
	for (auto& x : j.a)
		if (hasFloat(x))
			return true;
	for (auto& kv : j.o)
		if (hasFloat(kv.second))
			return true;
	return false;
}

// ================================================================ C05
// ops: tree(seed, depth, budget)   p: mode, xdl, leg, utf8, fault
void genRoundTrip(Prng& r, Plan& p, int tier)
{
	int64_t budget = r.below(5) == 0 ? (tier && r.below(6) == 0 ? 60000 : 3000) : biased(r, 1, 60, {1, 2, 3});
	p.ops.push_back(op("tree", {(int64_t)(r.next() >> 20), (int64_t)r.below(6), budget}));
	p.p["pretty"] = r.below(2);
	p.p["xdl"] = r.below(3) == 0;
	p.p["leg"] = r.below(3) != 0; // 1: through a file
	p.p["utf8"] = r.below(4) != 0;
	static const int chunks[] = {1, 2, 3, 4, 5, 7, 8, 15, 16, 31, 64, 255, 4096, 16382};
	if (r.below(3) != 0)
		p.p["knob.xdl.read_chunk"] = r.below(3) == 0 ? 1 + r.below(64) : chunks[r.below(sizeof chunks / sizeof chunks[0])];
	p.p["fault"] = r.below(8) == 0 ? 1 + r.below(3) : 0;
	p.p["fault_k"] = r.below(400);
	// the encoder hands its buffer to the sink whenever it exceeds this many bytes (16000 in the shipped build)
	static const int flushes[] = {0, 1, 2, 3, 7, 16, 40, 100, 255, 1000, 4096};
	if (r.below(3) != 0)
		p.p["knob.xdl.write_flush"] = flushes[r.below(sizeof flushes / sizeof flushes[0])];
}

void runRoundTrip(const Plan& p)
{
	ref::JV tree;
	for (auto& o : p.ops)
		if (o.k == "tree")
		{
			Prng r((uint64_t)o.arg(0));
			int budget = (int)std::max<int64_t>(1, std::min<int64_t>(200000, o.arg(2)));
			tree = ref::genTree(r, (int)std::max<int64_t>(0, std::min<int64_t>(12, o.arg(1))), budget, p.get("utf8", 1) != 0, p.get("xdl") != 0);
			break;
		}
	bool xdl = p.get("xdl") != 0, pretty = p.get("pretty") != 0, utf8 = p.get("utf8", 1) != 0;
	const char* fmt = xdl ? "xdl" : "json";
	asl::Var v = build(tree);
	asl::Json::Mode mode = pretty ? asl::Json::PRETTY : asl::Json::NONE;
	char key[96];
	// ---- in memory
	asl::String enc = xdl ? asl::Xdl::encode(v, mode) : asl::Json::encode(v, mode);
	{
		asl::Var back = xdl ? asl::Xdl::decode(enc) : asl::Json::decode(enc);
		std::string e = back.ok() ? cmp(back, tree, "$") : std::string("$: decoder rejected the encoder's output");
		if (!e.empty())
		{
			snprintf(key, sizeof key, "memory;%s;%s", fmt, pretty ? "pretty" : "compact");
			sim::fail("roundtrip_mismatch", key, "%s %s encode->decode: %s (text of %d bytes: %.300s)", fmt, pretty ? "pretty" : "compact", e.c_str(), enc.length(), *enc);
		}
	}
	if (!xdl && utf8)
	{
		ref::JV parsed;
		std::string text(*enc, (size_t)enc.length());
		ref::JParser jp(text);
		jp.rejectNulEscape = false;
		if (!jp.document(parsed))
			sim::fail("encoder_output", "rejected_by_strict_parser", "Json::encode output is not accepted by the strict RFC 8259 parser (stopped at offset %zu of %zu)", jp.p, text.size());
		else
		{
			// compare what the independent parser understood with the original tree, through asl's own comparison on a rebuilt Var
			asl::Var rebuilt = build(parsed);
			std::string e = cmp(rebuilt, tree, "$");
			if (!e.empty() && !hasFloat(tree))
				sim::fail("encoder_output", "denotes_other_value", "Json::encode output denotes a different value for the independent parser: %s", e.c_str());
		}
	}
	if (!p.get("leg"))
		return;
	// ---- through a file on the simulated disk
	sim::fs::mkdirs("/sim/j");
	const char* path = xdl ? "/sim/j/doc.xdl" : "/sim/j/doc.json";
	int fault = (int)p.get("fault");
	if (fault == 1)
		sim::fs::arm(sim::fs::F_OPEN_FAIL, 0, 13);
	else if (fault == 2)
		sim::fs::arm(sim::fs::F_ENOSPC, (long)p.get("fault_k"));
	bool wrote = xdl ? asl::Xdl::write(v, path, mode) : asl::Json::write(v, path, mode);
	bool fired = sim::fs::fired();
	sim::fs::disarm();
	if (fault == 1 && fired)
	{
		if (wrote)
			sim::fail("fault_handling", "write_true_on_open_failure", "write() returned true although the file could not be opened");
		sim::setNontrivial();
		return;
	}
	if (fault == 3)
		sim::fs::arm(sim::fs::F_EIO, (long)p.get("fault_k"));
	asl::Var back = xdl ? asl::Xdl::read(path) : asl::Json::read(path);
	bool rfired = sim::fs::fired();
	sim::fs::disarm();
	if (fired || rfired)
	{
		sim::setNontrivial(); // relaxed configuration: the calls returned and nothing was corrupted in memory; no equality demanded
		return;
	}
	std::string disk;
	sim::fs::get(path, disk);
	int chunk = (int)p.get("knob.xdl.read_chunk", 16382);
	if ((int)disk.size() > chunk || disk.size() <= 3)
		sim::setNontrivial();
	sim::mixCaseSig((uint64_t)disk.size() * 31 + (uint64_t)chunk);
	if (!wrote)
	{
		sim::fail("roundtrip_mismatch", "write_failed", "write() returned false without any fault");
		return;
	}
	const size_t flushAt = (size_t)p.get("knob.xdl.write_flush", 16000);
	if (disk.size() > flushAt)
		sim::probe("file_written_in_several_flushes"); // the encoder hands its buffer to the file sink every 16000 bytes (knob in the verification build)
	if (!xdl && utf8)
	{
		// the text that went to the file is the encoder's output too (it leaves the encoder in 16000-byte flushes):
		// it must be accepted by the strict parser and denote the same value
		ref::JV parsed;
		ref::JParser jp(disk);
		jp.rejectNulEscape = false;
		if (!jp.document(parsed))
			sim::fail("encoder_output", disk.size() > flushAt ? "file;rejected_by_strict_parser;several_flushes" : "file;rejected_by_strict_parser",
			          "the %zu-byte file written by Json::write is not accepted by the strict RFC 8259 parser (stopped at offset %zu)", disk.size(), jp.p);
		else
		{
			std::string e2 = cmp(build(parsed), tree, "$");
			if (!e2.empty() && !hasFloat(tree))
				sim::fail("encoder_output", "file;denotes_other_value", "the file written by Json::write denotes a different value for the independent parser: %s", e2.c_str());
		}
	}
	std::string e = back.ok() ? cmp(back, tree, "$") : std::string("$: read() returned an invalid Var");
	if (!e.empty())
	{
		snprintf(key, sizeof key, "file;%s;%s", fmt, disk.size() < 3 ? "size_below_3" : (int)disk.size() > chunk ? "multi_chunk" : "single_chunk");
		sim::fail("roundtrip_mismatch", key, "%s write->read through a file of %zu bytes (read chunk %d): %s", fmt, disk.size(), chunk, e.c_str());
	}
}

// ================================================================ C06
// ops: doc(kind, seed, depth, budget)  mut(kind, seed)*  cuts(seed, k)
// kinds: 0 valid JSON (independent writer, fancy style) 1 valid JSON (plain) 2 XDL (asl encoder) 3 raw bytes
void genStream(Prng& r, Plan& p, int tier)
{
	int kind = (int)r.below(8);
	kind = kind < 3 ? 0 : kind < 4 ? 1 : kind < 6 ? 2 : 3;
	int64_t budget = r.below(6) == 0 ? (tier ? 4000 : 600) : biased(r, 1, 40, {1, 2});
	p.ops.push_back(op("doc", {kind, (int64_t)(r.next() >> 20), (int64_t)r.below(7), budget}));
	int nm = r.below(2) ? 0 : 1 + (int)r.below(3);
	for (int i = 0; i < nm; i++)
		p.ops.push_back(op("mut", {(int64_t)(r.below(6) == 0 ? 6 : r.below(5)), (int64_t)(r.next() >> 20)}));
	// comments (accepted by the parser, not part of RFC 8259): their state must survive chunk boundaries too
	int nc = r.below(3) == 0 ? 1 + (int)r.below(3) : 0;
	for (int i = 0; i < nc; i++)
		p.ops.push_back(op("mut", {5, (int64_t)(r.next() >> 20)}));
	p.ops.push_back(op("cuts", {(int64_t)(r.next() >> 20), (int64_t)(1 + r.below(6))}));
	if (r.below(12) == 0)
		p.p["nest"] = r.below(2) ? 512 : (int64_t)r.below(600); // deep nesting documents
	static const int chunks[] = {1, 2, 3, 5, 8, 16, 64, 255, 16382};
	p.p["knob.xdl.read_chunk"] = chunks[r.below(sizeof chunks / sizeof chunks[0])];
}

std::string tokenLike(Prng& r)
{
	static const char* a = "abc xyz 123 {}[]\",:* / \\ \t";
	size_t n = r.below(20), al = strlen(a);
	std::string s;
	for (size_t i = 0; i < n; i++)
		s += a[r.below((uint32_t)al)];
	// must not end the comment early in a way that differs between the two comment styles: keep "*/" and newlines out
	for (size_t i = 0; i + 1 < s.size(); i++)
		if (s[i] == '*' && s[i + 1] == '/')
			s[i + 1] = '-';
	return s;
}

// every piece is handed over in a heap block that ends exactly at its terminating NUL, so that a parser
// looking past the end of a piece is seen by the sanitizer whatever the piece's length
void parsePiece(asl::XdlParser& ps, const std::string& piece)
{
	char* b = (char*)malloc(piece.size() + 1);
	memcpy(b, piece.data(), piece.size());
	b[piece.size()] = 0;
	ps.parse(b);
	free(b);
}

asl::Var feed(const std::string& text, const std::vector<size_t>& cuts)
{
	asl::XdlParser ps;
	size_t prev = 0;
	for (size_t c : cuts)
	{
		if (c <= prev || c >= text.size())
			continue;
		parsePiece(ps, text.substr(prev, c - prev));
		prev = c;
	}
	parsePiece(ps, text.substr(prev));
	ps.parse(" ");
	return ps.value();
}

// structural equality through the two encoders; the encodings of the whole-delivery result are computed once
struct Canon
{
	bool ok;
	asl::String x, j;
	explicit Canon(const asl::Var& a) : ok(a.ok())
	{
		if (ok)
		{
			x = asl::Xdl::encode(a, asl::Json::NONE);
			j = asl::Json::encode(a, asl::Json::NONE);
		}
	}
};
bool same(const Canon& a, const asl::Var& b)
{
	if (!a.ok || !b.ok())
		return a.ok == b.ok();
	return a.x == asl::Xdl::encode(b, asl::Json::NONE) && a.j == asl::Json::encode(b, asl::Json::NONE);
}

bool insideToken(const std::string& t, size_t cut)
{
	if (cut == 0 || cut >= t.size())
		return false;
	auto tokc = [](unsigned char c) { return isalnum(c) || c == '\\' || c == '.' || c == '-' || c == '+' || c == '_' || c >= 0x80 || c == '/' || c == '*'; };
	return tokc((unsigned char)t[cut - 1]) && tokc((unsigned char)t[cut]);
}

void runStream(const Plan& p)
{
	std::string text;
	ref::JV tree;
	int kind = 3;
	bool mutated = false;
	std::vector<size_t> cuts;
	uint64_t cutSeed = 1;
	int cutK = 2;
	for (auto& o : p.ops)
	{
		if (o.k == "doc" && text.empty())
		{
			kind = (int)(std::abs(o.arg(0)) % 4);
			Prng r((uint64_t)o.arg(1));
			int budget = (int)std::max<int64_t>(1, std::min<int64_t>(20000, o.arg(3)));
			if (kind == 3)
			{
				size_t n = 1 + r.below(200);
				static const char* js = "{}[]\",:0123456789.-+eEtruefalsn \n\\u/*x=<>YN";
				for (size_t i = 0; i < n; i++)
					text += r.below(3) ? js[r.below((uint32_t)strlen(js))] : (char)(1 + r.below(255));
			}
			else
			{
				tree = ref::genTree(r, (int)std::max<int64_t>(0, std::min<int64_t>(12, o.arg(2))), budget, true, kind == 2);
				int nest = (int)std::max<int64_t>(0, std::min<int64_t>(600, p.get("nest")));
				if (nest > 0 && kind != 2)
				{
					// nesting up to 512 must be accepted
					ref::JV inner;
					std::swap(inner, tree);
					for (int i = 0; i < nest; i++)
					{
						ref::JV outer;
						if (i % 2)
						{
							outer.t = ref::JV::OBJ;
							outer.o.push_back({"k", inner});
						}
						else
						{
							outer.t = ref::JV::ARR;
							outer.a.push_back(inner);
						}
						inner = outer;
					}
					std::swap(tree, inner);
				}
				if (kind == 2)
				{
					asl::String s = asl::Xdl::encode(build(tree), r.below(2) ? asl::Json::PRETTY : asl::Json::NONE);
					text.assign(*s, (size_t)s.length());
					// XDL class tags (Name{...}) in front of some objects; names that begin like the Y/N booleans or the
					// true/false/null literals are the interesting ones for a parser that decides on a prefix
					Prng rt(mix64((uint64_t)o.arg(1), 31337));
					if (rt.below(2))
					{
						static const char* TAGS[] = {"Node", "Yes", "No", "N", "Y", "Y_1", "N.a", "Tag", "truth", "falsey", "nullable", "x9", "Ydata"};
						std::vector<size_t> braces;
						bool inStr = false;
						for (size_t i = 0; i < text.size(); i++)
						{
							if (inStr)
							{
								if (text[i] == '\\')
									i++;
								else if (text[i] == '"')
									inStr = false;
							}
							else if (text[i] == '"')
								inStr = true;
							else if (text[i] == '{')
								braces.push_back(i);
						}
						int nt = 1 + (int)rt.below(3);
						for (int k = 0; k < nt && !braces.empty(); k++)
						{
							size_t bi = rt.below((uint32_t)braces.size());
							const char* tag = TAGS[rt.below(sizeof TAGS / sizeof TAGS[0])];
							text.insert(braces[bi], tag);
							for (size_t j = bi; j < braces.size(); j++)
								braces[j] += strlen(tag);
							braces.erase(braces.begin() + (long)bi);
						}
					}
				}
				else
					ref::writeJson(text, tree, r, kind == 0);
			}
		}
		else if (o.k == "mut" && !text.empty())
		{
			Prng r((uint64_t)o.arg(1));
			mutated = true;
			size_t at = r.below((uint32_t)text.size());
			if (std::abs(o.arg(0)) % 6 == 5)
			{
				// insert a comment after a structural character (outside strings for generated documents most of the time)
				std::vector<size_t> spots;
				for (size_t i = 0; i < text.size(); i++)
					if (text[i] == ',' || text[i] == '[' || text[i] == '{' || text[i] == ':')
						spots.push_back(i + 1);
				if (!spots.empty())
				{
					size_t where = spots[r.below((uint32_t)spots.size())];
					std::string body = tokenLike(r);
					text.insert(where, r.below(2) ? "/*" + body + "*/" : "//" + body + "\n");
				}
				continue;
			}
			if (std::abs(o.arg(0)) % 7 == 6)
			{
				// a leading zero (or "-0") in front of a number: not a JSON number any more, whole or in pieces
				std::vector<size_t> starts;
				for (size_t i = 0; i < text.size(); i++)
					if (isdigit((unsigned char)text[i]) && (i == 0 || strchr("[,: \n\t-", text[i - 1])))
						starts.push_back(i);
				if (!starts.empty())
					text.insert(starts[r.below((uint32_t)starts.size())], "0");
				continue;
			}
			switch (std::abs(o.arg(0)) % 5)
			{
			case 0: text.resize(at); break;                                            // truncation
			case 1: text.erase(at, 1 + r.below(4)); break;                              // deletion
			case 2: text.insert(at, text.substr(at, 1 + r.below(8))); break;            // duplication
			case 3: text.insert(at, text.substr(r.below((uint32_t)text.size()), 1 + r.below(12))); break; // splice
			default: text[at] = (char)(1 + r.below(255)); break;                        // byte flip
			}
		}
		else if (o.k == "cuts")
		{
			cutSeed = (uint64_t)o.arg(0);
			cutK = (int)std::max<int64_t>(1, std::min<int64_t>(12, o.arg(1)));
		}
	}
	for (auto& c : text)
		if (c == 0)
			c = ' '; // the API is C-string based
	if (text.empty())
		text = " ";
	asl::String whole(text.c_str());
	asl::Var r0 = asl::Json::decode(whole);
	Canon c0(r0);
	bool boundaryInToken = false;
	// (b) every 2-chunk cut of short texts, seeded k-chunk cuts otherwise
	{
		// all 2-chunk cuts of short texts; for longer ones a seeded sample of cut points
		std::vector<size_t> points;
		if (text.size() <= 100)
			for (size_t c = 1; c < text.size(); c++)
				points.push_back(c);
		else
		{
			Prng r(cutSeed ^ 0x77);
			for (int i = 0; i < 48; i++)
				points.push_back(1 + r.below((uint32_t)text.size() - 1));
		}
		for (size_t c : points)
		{
			asl::Var r1 = feed(text, {c});
			if (!same(c0, r1))
			{
				sim::fail("chunk_dependence", insideToken(text, c) ? "two_chunks;inside_token" : "two_chunks", "cutting the %zu-byte text after byte %zu changes the result (whole: %s, chunked: %s)", text.size(), c,
				          r0.ok() ? "value" : "invalid", r1.ok() ? "value" : "invalid");
				break;
			}
			if (insideToken(text, c))
				boundaryInToken = true;
		}
	}
	{
		Prng r(cutSeed);
		for (int rep = 0; rep < 4; rep++)
		{
			std::vector<size_t> cs;
			for (int i = 0; i < cutK; i++)
				cs.push_back(1 + r.below((uint32_t)text.size()));
			std::sort(cs.begin(), cs.end());
			asl::Var r1 = feed(text, cs);
			for (size_t c : cs)
				if (insideToken(text, c))
					boundaryInToken = true;
			if (!same(c0, r1))
			{
				sim::fail("chunk_dependence", "k_chunks", "feeding the %zu-byte text in %d seeded chunks changes the result (whole: %s, chunked: %s)", text.size(), cutK + 1, r0.ok() ? "value" : "invalid", r1.ok() ? "value" : "invalid");
				break;
			}
		}
	}
	// (c) through Json::read with the chunk knob (the file layer strips a UTF-8 BOM, so BOM-like texts are not compared)
	if (text.size() >= 3 && !((unsigned char)text[0] == 0xef && (unsigned char)text[1] == 0xbb))
	{
		sim::fs::mkdirs("/sim/j");
		sim::fs::put("/sim/j/in.json", text);
		asl::Var r2 = asl::Json::read("/sim/j/in.json");
		if (!same(c0, r2))
			sim::fail("chunk_dependence", "file_read", "Json::read of the %zu-byte text (read chunk %d) differs from Json::decode of the same text (decode: %s, read: %s)", text.size(), (int)p.get("knob.xdl.read_chunk", 16382),
			          r0.ok() ? "value" : "invalid", r2.ok() ? "value" : "invalid");
	}
	// (e) RFC 8259 documents are accepted with the value the independent parser gives
	if (!mutated && (kind == 0 || kind == 1))
	{
		ref::JV parsed;
		if (!ref::parseJson(text, parsed))
			sim::fail("harness", "generator_not_rfc8259", "the reference parser rejects a generated document");
		else if (!r0.ok() && p.get("nest") > 505)
		{
			// the statement promises acceptance for nesting up to 512 only; deeper documents just have to be handled safely
		}
		else if (!r0.ok())
			sim::fail("conformance", "valid_document_rejected", "a valid RFC 8259 document of %zu bytes (nesting %d) is rejected", text.size(), (int)p.get("nest"));
		else
		{
			std::string e = cmp(r0, parsed, "$");
			if (!e.empty())
				sim::fail("conformance", "value_differs", "valid document: %s", e.c_str());
		}
		// (d) prefixes that stop before the final closing character of a top-level array, object or string are rejected
		if (parsed.t == ref::JV::ARR || parsed.t == ref::JV::OBJ || parsed.t == ref::JV::STR)
		{
			size_t last = text.find_last_not_of(" \t\r\n");
			Prng r(cutSeed ^ 0x55);
			size_t nchecks = text.size() <= 100 ? last : 40;
			for (size_t k = 0; k < nchecks; k++)
			{
				size_t len = text.size() <= 100 ? k + 1 : 1 + r.below((uint32_t)last);
				if (len > last)
					continue;
				asl::Var rp = asl::Json::decode(asl::String(text.substr(0, len).c_str()));
				{
					// the same truncated text once more in a block that ends at its NUL (memory safety of look-aheads)
					asl::XdlParser pp;
					parsePiece(pp, text.substr(0, len));
				}
				if (rp.ok())
				{
					sim::fail("conformance", "truncated_document_accepted", "the first %zu bytes of a %zu-byte document (top-level %s) are accepted as a complete value", len, text.size(),
					          parsed.t == ref::JV::ARR ? "array" : parsed.t == ref::JV::OBJ ? "object" : "string");
					break;
				}
			}
		}
	}
	if (boundaryInToken)
		sim::setNontrivial();
	sim::mixCaseSig(text.size());
}

const char* REAL0506 = "src/Xdl.cpp (XdlParser state machine, XdlEncoder, Json/Xdl read, write, encode, decode), src/Var.cpp, src/TextFile.cpp, src/File.cpp, Stack.h";
const char* STUB0506 = "disk (VFS behind fopencookie; the read chunk is a randomised knob), byte source feeding XdlParser::parse() in arbitrary pieces; independent strict RFC 8259 parser, value generator and JSON writer in scen/ref/json_ref.h";

} // namespace

REGISTER_SCENARIO(c05_roundtrip, "C05", "json_roundtrip", genRoundTrip, runRoundTrip, 200000, 12000000, {1}, 0, 2000000, 300.0,
                  "non-trivial: the file leg read a file larger than the read chunk (a chunk boundary falls inside the document) or a file of <= 3 bytes, or a disk fault fired; distinct by plan hash x (file size, chunk)", REAL0506, STUB0506,
                  false);
REGISTER_SCENARIO(c06_stream, "C06", "json_stream", genStream, runStream, 30000, 3000000, {1}, 0, 2000000, 300.0,
                  "non-trivial: at least one chunk boundary fell inside a token (string, escape, \\uXXXX, number, literal, comment opener); distinct by plan hash x text size", REAL0506, STUB0506, false);
