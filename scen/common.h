// Helpers shared by scenarios (instrumented code).
#pragma once
#include "sim/sim.h"
#include "driver/scenario.h"
#include <string>
#include <vector>
#include <functional>
#include <set>
#include <map>
#include <algorithm>

namespace scn {

using sim::Op;
using sim::Plan;
using sim::Prng;
using sim::mix64;

inline Op op(const char* k, std::initializer_list<int64_t> a = {}, const std::string& s = std::string())
{
	Op o;
	o.k = k;
	o.a.assign(a.begin(), a.end());
	o.s = s;
	return o;
}

// boundary-biased integer in [lo,hi]
inline int64_t biased(Prng& r, int64_t lo, int64_t hi, std::initializer_list<int64_t> edges)
{
	if (r.below(3) == 0)
	{
		std::vector<int64_t> e;
		for (int64_t x : edges)
			for (int64_t d = -1; d <= 1; d++)
				if (x + d >= lo && x + d <= hi)
					e.push_back(x + d);
		if (!e.empty())
			return e[r.below((uint32_t)e.size())];
	}
	return r.range(lo, hi);
}

// harness task with a closure
struct Task
{
	std::function<void()> f;
	sim::TaskId id = -1;
	static void tramp(void* p) { ((Task*)p)->f(); }
	void start(std::function<void()> fn)
	{
		f = std::move(fn);
		id = sim::spawn(tramp, this);
	}
	void join() { sim::joinTask(id); }
};

inline std::string randBytes(Prng& r, size_t n)
{
	std::string s(n, '\0');
	for (size_t i = 0; i < n; i++)
		s[i] = (char)r.below(256);
	return s;
}

} // namespace scn
