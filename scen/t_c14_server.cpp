#include "scen/c14_server.inc"
REGISTER_SCENARIO(c14_server_t, "C14", "server", genServer, runServer, 150000, 4000000, {16, 64, 256}, 30, 3000000, 300.0, RULE14, REAL14, STUB14, true);
