// C09 — hostile peers on simulated connections: any byte stream, fragmented, cut at any offset (peer
// closes early) or stalled. Request reading and dispatch must terminate promptly, without memory errors,
// never hand the application a path containing "..", never touch a file outside the web root, and hand over
// exactly the fields that were sent when the stream is a well-formed request.
#include "scen/http_common.inc"

namespace {

const int PORT = 18009;

struct HostileHttp : public TestHttp
{
	int clients() { return (int)_numClients; }
};

// ---------------------------------------------------------------- stream mutations
std::string mutateRequest(const std::string& base, Prng& r, int kind)
{
	std::string s = base;
	size_t eol = s.find("\r\n");
	size_t eoh = s.find("\r\n\r\n");
	auto insertHeader = [&](const std::string& h) {
		size_t at = eol == std::string::npos ? 0 : eol + 2;
		s.insert(at, h + "\r\n");
	};
	switch (kind)
	{
	case 0: // request line damage
		switch (r.below(10))
		{
		case 8: s.replace(0, eol, "GET /a#frag?y=2&z=3 HTTP/1.1"); break;
		case 9: s.replace(0, eol, "GET wwwsecret/../secret HTTP/1.1"); break;
		case 0: s.replace(0, eol, "GET"); break;
		case 1: s.replace(0, eol, "GET /x"); break;
		case 2: s.replace(0, eol, " / HTTP/1.1"); break;
		case 3: s.replace(0, eol, "GET  /a  HTTP/1.1  extra"); break;
		case 4: s.replace(0, eol, "GET /" + std::string(1 + r.below(3) ? 20000 : 15990, 'a') + " HTTP/1.1"); break;
		case 5: s.replace(0, eol, std::string("G\x00T /x HTTP/1.1", 15)); break;
		case 6: s.replace(0, eol, "GET /\xff\xfe%zz%4 HTTP/1.1"); break;
		default: s.replace(0, eol, "GET /a?x=1#frag?y=2 HTTP/1.0"); break;
		}
		break;
	case 1: // header block damage
		switch (r.below(9))
		{
		case 0: insertHeader(" folded continuation without a header"); break;
		case 1: insertHeader("X-Fold: a\r\n\tb\r\n c"); break;
		case 2: insertHeader("NoColonHere"); break;
		case 3: insertHeader("X-Long: " + std::string(15990 + r.below(30), 'v')); break;
		case 4: insertHeader("X-Empty:"); break;
		case 5: insertHeader(":"); break;
		case 6: insertHeader("X-Hi\x80\xff: \x01\x02\x7f"); break;
		case 7:
			for (int i = 0; i < 300; i++)
				insertHeader("X-Many-" + std::to_string(i) + ": y");
			break;
		default: insertHeader(std::string(16500, 'h')); break;
		}
		break;
	case 2: // Content-Length games
	{
		static const char* v[] = {"-1", "-2147483648", "2147483647", "2147483648", "4294967296", "99999999999999999999", "abc", "", " 12", "0x10", "1e3", "12abc", "+5"};
		insertHeader(std::string("Content-Length: ") + v[r.below(sizeof v / sizeof v[0])]);
		if (r.below(2))
			s += bodyOf(r.next(), r.below(200));
		break;
	}
	case 3: // chunked games
	{
		insertHeader("Transfer-Encoding: chunked");
		static const char* c[] = {"zz\r\nabc\r\n0\r\n\r\n", "-5\r\nabcde\r\n0\r\n\r\n", "7fffffff\r\nabc", "ffffffff\r\nabc\r\n", "100000000\r\nabc\r\n", "5\r\nabcdeXX0\r\n\r\n", "5\r\nab", "5;ext=1\r\nabcde\r\n0\r\n\r\n",
		                          "\r\n\r\n", "0", "3\r\nabc\r\n", "00000000000000000003\r\nabc\r\n0\r\n\r\n"};
		s += c[r.below(sizeof c / sizeof c[0])];
		break;
	}
	case 4: // Range games on a file target
	{
		static const char* v[] = {"bytes=5", "bytes=-", "bytes=1-2-3", "bytes=0-1,2-3", "bytes=99999999-", "bytes=-5", "bytes=5-2", "bytes=a-b", "bytes=", "items=0-1", "bytes=0-99999999", "bytes=2147483648-2147483649",
		                          "bytes=-2147483649-5", "bytes=3-"};
		s.replace(0, eol, "GET /f0.txt HTTP/1.1");
		eol = s.find("\r\n");
		insertHeader(std::string("Range: ") + v[r.below(sizeof v / sizeof v[0])]);
		break;
	}
	case 5: // Expect / Upgrade
		if (r.below(2))
		{
			insertHeader("Expect: 100-continue");
			insertHeader(r.below(2) ? "Content-Length: 999999999999" : "Content-Length: 128000001");
		}
		else
		{
			insertHeader("Upgrade: websocket");
			insertHeader("Connection: Upgrade");
			insertHeader("Sec-WebSocket-Key: dGhlIHNhbXBsZSBub25jZQ==");
		}
		break;
	case 6: // traversal attempts against the file server
	{
		static const char* t[] = {"/../secret", "/..%2fsecret", "/%2e%2e/secret", "/%2e%2e%2fsecret", "/....//secret", "/.%2e/secret", "/%252e%252e/secret", "/a/../../secret", "/..../secret", "/. ./secret",
		                          "/..;/secret", "/%2e./secret", "/.%2E/%2e./secret", "/..\\secret", "/..%5csecret", "/...%2f.../secret", "/%2e%2e%2e%2e/secret", "//sim/secret", "/%2fsim%2fsecret", "/..%00/secret",
		                          "/.%00./secret", "/f0.txt/../../secret", "/?/../secret", "/#/../secret", "/..%c0%afsecret", "secret", "../secret", "%2e%2e/secret", "f0.txt", "/a%00/../secret", "/%00../secret", "/f0.txt%00/../../secret"};
		s.replace(0, eol, std::string("GET ") + t[r.below(sizeof t / sizeof t[0])] + " HTTP/1.1");
		break;
	}
	case 7: // byte-level noise
	{
		int n = 1 + (int)r.below(4);
		for (int i = 0; i < n && !s.empty(); i++)
		{
			size_t at = r.below((uint32_t)std::min<size_t>(s.size(), eoh == std::string::npos ? s.size() : eoh + 4));
			switch (r.below(4))
			{
			case 0: s[at] = (char)r.below(256); break;
			case 1: s.erase(at, 1 + r.below(3)); break;
			case 2: s.insert(at, 1, (char)r.below(256)); break;
			default: s.insert(at, s.substr(at, 1 + r.below(8))); break;
			}
		}
		break;
	}
	default: // line endings: bare LF
	{
		std::string o;
		for (size_t i = 0; i < s.size(); i++)
			if (!(s[i] == '\r' && i + 1 < s.size() && s[i + 1] == '\n' && (eoh == std::string::npos || i < eoh + 4)))
				o += s[i];
		s = o;
		break;
	}
	}
	return s;
}

// ops: peer(seed, mutation(-1 none), cut(-1 none | permille of length), stall_ms, at_ms, bodyLen)
//      enum(first, count, maxlen)   fast path: request targets over {. / %2e %2f %25 a} enumerated by index
//      urls(seed, count)            Url(String)/Url::decode totality over URL metacharacters (input-only, rides along)
void genHostile(Prng& r, Plan& p, int tier)
{
	uint32_t mode = r.below(10);
	if (mode < 7)
	{
		int n = 1 + (int)r.below(3);
		for (int i = 0; i < n; i++)
		{
			int mut = r.below(4) == 0 ? -1 : (int)r.below(9);
			int cut = r.below(2) ? (int)r.below(1001) : -1;
			int stall = r.below(8) == 0 ? (int)r.below(r.below(2) ? 3000 : 15000) : 0;
			// legal spellings of a well-formed stream (bits 0-1 separator style, bits 2-3 folded first header, bit 4 a second complete request pipelined right
			// behind the first one) and one malformed one (bit 5: a header line without a colon)
			int64_t variant = 0;
			if (r.below(3) == 0)
				variant = (int64_t)r.below(4) | ((int64_t)(r.below(3) == 0 ? 1 + r.below(2) : 0) << 2) | ((int64_t)(r.below(4) == 0) << 4) | ((int64_t)(r.below(8) == 0) << 5);
			p.ops.push_back(op("peer", {(int64_t)(r.next() >> 20), mut, cut, stall, (int64_t)r.below(50), (int64_t)biased(r, 0, 3000, {0, 1, 100, 2000}), variant}));
		}
		if (r.below(2))
			p.p["knob.net.frag"] = 10 + r.below(90);
		if (r.below(4) == 0)
			p.p["knob.net.lat_us"] = 1 + r.below(100000);
		p.p["relaxed"] = r.below(4) == 0;
	}
	else if (mode < 9)
	{
		// total number of targets of length <= L over 6 symbols
		int L = tier ? 8 : 6;
		uint64_t total = 0, pw = 1;
		for (int i = 0; i <= L; i++)
		{
			total += pw;
			pw *= 6;
		}
		uint64_t count = tier ? 4000 : 1500;
		// consecutive blocks of the enumeration: block b = run index, so the blocks tile the whole space many times over
		uint64_t first = (genRunIndex() % 100000) * count % total;
		p.ops.push_back(op("enum", {(int64_t)first, (int64_t)count, L}));
	}
	else
		p.ops.push_back(op("urls", {(int64_t)(r.next() >> 20), 400}));
}

struct Peer
{
	Spec* spec = nullptr; // null: mutated stream (unknown id)
	Spec* follower = nullptr; // a second complete request sent right behind the first one on the same connection (pipelined)
	std::string stream;
	size_t cutAt = (size_t)-1;
	int stallMs = 0, atMs = 0;
	size_t headLen = 0;
	std::string reply;
	bool sentAll = false;
	bool waited100 = false, got100 = false; // well-formed Expect: 100-continue request: the peer held its body back until the interim response
};

void peerTask(Peer* pe)
{
	sim::sleepFor(pe->atMs * 0.001);
	int fd = sim::net::rawConnectTcp(PORT);
	if (fd < 0)
		return;
	size_t limit = std::min(pe->cutAt, pe->stream.size());
	Prng r(mix64(pe->stream.size(), 4242));
	size_t i = 0;
	bool ok = true;
	bool stalled = false;
	const bool expectClient = pe->spec && pe->spec->expect100 && pe->cutAt == (size_t)-1 && pe->stallMs == 0 && pe->headLen < limit;
	while (i < limit && ok)
	{
		size_t n = 1 + r.below(r.below(3) == 0 ? 1 : (r.below(2) ? 16 : 2000));
		n = std::min(n, limit - i);
		if (expectClient && i < pe->headLen)
			n = std::min(n, pe->headLen - i);
		if (expectClient && i == pe->headLen && !pe->waited100)
		{
			// a client that means its Expect header: nothing of the body is sent before "100 Continue" has arrived
			// (it gives up waiting after 15 s, longer than any wait of the server)
			pe->waited100 = true;
			std::string interim;
			double until = sim::simNow() + 15.0;
			while (interim.find("\r\n\r\n") == std::string::npos && sim::simNow() < until)
			{
				char c;
				int k = sim::net::rawRecv(fd, &c, 1, until - sim::simNow());
				if (k <= 0)
					break;
				interim += c;
			}
			pe->got100 = interim.compare(0, 12, "HTTP/1.1 100") == 0;
			if (!pe->got100)
				pe->reply = interim; // whatever it was belongs to the final response
		}
		if (pe->stallMs && !stalled && i >= limit / 2)
		{
			stalled = true;
			sim::faultFired(pe->stallMs > 10000 ? "stall_beyond_timeout" : "stall");
			sim::sleepFor(pe->stallMs * 0.001);
		}
		ok = sim::net::rawSend(fd, pe->stream.data() + i, n) == (int)n;
		i += n;
	}
	pe->sentAll = ok && limit == pe->stream.size();
	if (pe->cutAt != (size_t)-1)
	{
		sim::faultFired("peer_close");
		sim::net::rawClose(fd); // the network analogue of a crash at an arbitrary instant
		return;
	}
	sim::net::rawRecvAll(fd, pe->reply, 1 << 20, 40.0);
	sim::net::rawClose(fd);
}

std::string targetOfIndex(uint64_t idx, int maxLen)
{
	static const char* sym[] = {".", "/", "%2e", "%2f", "%25", "a"};
	// length-lexicographic enumeration
	uint64_t pw = 1;
	int len = 0;
	while (len < maxLen && idx >= pw)
	{
		idx -= pw;
		pw *= 6;
		len++;
	}
	if (idx >= pw)
		idx %= pw;
	std::string t = "/";
	for (int i = 0; i < len; i++)
	{
		t += sym[idx % 6];
		idx /= 6;
	}
	return t;
}

void runEnum(const Op& o)
{
	uint64_t first = (uint64_t)std::max<int64_t>(0, o.arg(0));
	uint64_t count = (uint64_t)std::max<int64_t>(0, std::min<int64_t>(6000, o.arg(1)));
	int L = (int)std::max<int64_t>(0, std::min<int64_t>(10, o.arg(2)));
	asl::Socket lst;
	if (!lst.bind("127.0.0.1", PORT + 1))
	{
		sim::fail("harness", "bind_failed", "bind failed");
		return;
	}
	lst.listen(5);
	for (uint64_t k = 0; k < count; k++)
	{
		std::string target = targetOfIndex(first + k, L);
		std::string reqs = "GET " + target + " HTTP/1.1\r\nHost: x\r\n\r\n";
		int fd = sim::net::rawConnectTcp(PORT + 1);
		if (fd < 0)
			break;
		sim::net::rawSend(fd, reqs.data(), reqs.size());
		asl::Socket conn = lst.accept();
		{
			asl::HttpRequest req(conn);
			if (req.path().contains(".."))
			{
				sim::fail("dotdot_path", "enumerated_target", "target %s yields the decoded path '%s' containing '..'", target.c_str(), printable(*req.path()).c_str());
				k = count;
			}
			sim::mixCaseSig(k);
		}
		conn.close();
		sim::net::rawClose(fd);
	}
	lst.close();
	sim::setNontrivial();
}

void runUrls(const Op& o)
{
	Prng r((uint64_t)o.arg(0));
	int count = (int)std::max<int64_t>(0, std::min<int64_t>(2000, o.arg(1)));
	static const char* alpha = ":/?#[]@!$&'()*+,;=%.-_~aZ09 %%%\x80\xff";
	for (int i = 0; i < count; i++)
	{
		std::string u = tokenOf(r, 0, 24, alpha);
		if (r.below(3) == 0)
			u = "http://" + u;
		// stored flush against the end of a heap block so that ASan sees an overrun of one byte
		char* blk = (char*)malloc(u.size() + 1);
		memcpy(blk, u.c_str(), u.size() + 1);
		{
			asl::String s(blk);
			asl::Url url(s);
			asl::String d = asl::Url::decode(s);
			if (d.length() > s.length())
				sim::fail("url_decode", "longer_than_input", "Url::decode produced more bytes than its input");
			asl::Dic<> q = asl::Url::parseQuery(s);
			(void)url;
			(void)q;
		}
		free(blk);
	}
}

void runHostile(const Plan& p)
{
	std::vector<Peer> peers;
	std::vector<Spec> specs;
	size_t npeers = 0;
	for (auto& o : p.ops)
	{
		if (o.k == "enum")
		{
			runEnum(o);
			return;
		}
		if (o.k == "urls")
		{
			runUrls(o);
			return;
		}
		if (o.k == "peer")
			npeers++;
	}
	if (npeers > 6)
		npeers = 6;
	specs.resize(2 * npeers); // [npeers, 2*npeers): pipelined followers
	peers.resize(npeers);
	sim::fs::mkdirs("/sim/www");
	sim::fs::put("/sim/www/f0.txt", bodyOf(7, 20000, true));
	sim::fs::put("/sim/www/index.html", "<html>index</html>");
	sim::fs::put("/sim/secret", "TOP-SECRET-CANARY");
	sim::fs::put("/sim/wwwsecret", "SIBLING-CANARY");
	size_t i = 0;
	for (auto& o : p.ops)
	{
		if (o.k != "peer" || i >= npeers)
			continue;
		Spec& s = specs[i];
		Peer& pe = peers[i];
		size_t bl = (size_t)std::max<int64_t>(0, std::min<int64_t>(100000, o.arg(5)));
		buildSpec(s, (int)i, 1, (uint64_t)o.arg(0), bl, 50, 1, 0);
		s.respKind = 1;
		int mut = (int)o.arg(1);
		Prng r(mix64((uint64_t)o.arg(0), 31337));
		const int variant = mut < 0 ? (int)(std::abs(o.arg(6)) & 63) : 0;
		s.hdrSep = variant & 3;
		s.fold = std::min(2, (variant >> 2) & 3);
		s.badLine = (variant >> 5) & 1;
		const bool pipelined = ((variant >> 4) & 1) && !s.badLine && !s.expect100;
		std::string head = rawRequestHead(s, pipelined, PORT);
		std::string payload = s.chunkedUpload ? chunkedEncode(s.body, r) : s.body;
		pe.headLen = head.size();
		if (mut < 0)
		{
			pe.spec = &s;
			pe.stream = head + payload;
			if (pipelined)
			{
				Spec& f = specs[npeers + i];
				buildSpec(f, (int)(npeers + i), 1, mix64((uint64_t)o.arg(0), 555), bl / 2, 50, 1, 0);
				f.respKind = 1;
				f.expect100 = false;
				pe.follower = &f;
				pe.stream += rawRequestHead(f, false, PORT) + (f.chunkedUpload ? chunkedEncode(f.body, r) : f.body);
			}
		}
		else
		{
			// mutated streams carry an id the server does not know: they are answered by the file server
			Spec anon = s;
			anon.id = 999999990 + (int)i; // stays unknown to the server even after a few bytes of noise
			pe.stream = mutateRequest(rawRequestHead(anon, false, PORT) + payload, r, mut % 9);
		}
		int cut = (int)o.arg(2);
		if (cut >= 0)
			pe.cutAt = (size_t)((uint64_t)std::min(cut, 1000) * pe.stream.size() / 1000);
		pe.stallMs = (int)std::max<int64_t>(0, std::min<int64_t>(20000, o.arg(3)));
		pe.atMs = (int)std::max<int64_t>(0, std::min<int64_t>(1000, o.arg(4)));
		i++;
	}
	HostileHttp* srv = new HostileHttp;
	srv->specs = &specs;
	srv->serveFiles = true;
	srv->setRoot("/sim/www");
	if (!srv->bind(PORT))
	{
		sim::fail("harness", "bind_failed", "bind failed");
		delete srv;
		return;
	}
	srv->start(true);
	sim::fs::clearAccessLog();
	std::vector<Task> tasks(peers.size());
	for (size_t k = 0; k < peers.size(); k++)
	{
		Peer* pe = &peers[k];
		tasks[k].start([pe]() { peerTask(pe); });
	}
	for (auto& t : tasks)
		t.join();
	// bounded termination: every peer has closed; handlers may legitimately sit in a 10 s waitInput, not longer than 60 s
	sim::sleepFor(60.0);
	int still = srv->clients();
	// (when the run lifts the scheduler's starvation cap - the slow-node fault - threads may be held back for
	// arbitrary simulated time, so only safety is checked there)
	if (still > 0 && !p.get("relaxed"))
		sim::fail("liveness", "handler_alive_60s_after_close", "%d connection handlers still running 60 simulated seconds after every peer had closed", still);
	srv->stop(true);
	int dots = srv->dots;
	delete srv;
	sim::sleepFor(3.0);

	sim::NoSched ns;
	if (dots)
		sim::fail("dotdot_path", "in_handler", "the handler saw a decoded path containing '..' (%d times)", dots);
	for (auto& path : sim::fs::accessLog())
		if (path.compare(0, 9, "/sim/www/") != 0 && path != "/sim/www")
		{
			sim::fail("path_escape", "file_access_outside_root", "the file server touched '%s', outside its root /sim/www", printable(path, 100).c_str());
			break;
		}
	bool nontrivial = false;
	for (auto& pe : peers)
	{
		if (pe.reply.find("TOP-SECRET-CANARY") != std::string::npos || pe.reply.find("SIBLING-CANARY") != std::string::npos)
			sim::fail("path_escape", "canary_served", "a file outside the web root was served");
		if (pe.cutAt != (size_t)-1 && pe.cutAt > 16 && pe.cutAt < pe.stream.size())
			nontrivial = true;
		Spec* s = pe.spec;
		if (!s || s->handlerCalls == 0)
			continue;
		if (pe.cutAt != (size_t)-1 && pe.cutAt < pe.headLen)
		{
			// the request head (request line + headers + blank line) never arrived completely: this is not a request,
			// the connection must be dropped without calling the application
			sim::fail("handler_mismatch", "dispatched_incomplete_head", "a request whose head was cut after %zu of %zu bytes (peer closed) was handed to the application", pe.cutAt, pe.headLen);
			continue;
		}
		if (pe.waited100 && !pe.got100 && !p.get("relaxed") && s->oBody != s->body)
		{
			sim::fail("handler_mismatch", "expect_100_unanswered", "a %s request with Expect: 100-continue got no interim response within 15 s and was handed to the application with %zu of its %zu body bytes, although the client had not been told to send them",
			          s->chunkedUpload ? "chunked" : "Content-Length", s->oBody.size(), s->body.size());
			continue;
		}
		auto sameHeader = [](const Spec* sp, size_t h) {
			std::string a = sp->headers[h].second, b = sp->oHeaders[h].second;
			if (h == 0 && sp->fold && a.size() >= 6)
			{
				// a folded value: the line breaks stand for white space (RFC 7230 3.2.4); how much of it the library keeps is not judged, the text is
				a.erase(std::remove_if(a.begin(), a.end(), [](char c) { return c == ' ' || c == '\t'; }), a.end());
				b.erase(std::remove_if(b.begin(), b.end(), [](char c) { return c == ' ' || c == '\t'; }), b.end());
			}
			return a == b;
		};
		auto exact = [&](Spec* s, const char* what) {
			std::string tag = what;
			if (s->oMethod != s->method)
				sim::fail("handler_mismatch", (tag + "method").c_str(), "well-formed request: sent method %s, handler saw %s", s->method.c_str(), s->oMethod.c_str());
			if (s->oPath != s->pathDecoded)
				sim::fail("handler_mismatch", (tag + "path").c_str(), "well-formed request: target %s decodes to '%s', handler saw '%s'", printable(s->target, 80).c_str(), printable(s->pathDecoded).c_str(), printable(s->oPath).c_str());
			for (size_t q = 0; q < s->oQuery.size(); q++)
				if (q >= s->query.size() || s->oQuery[q].second != s->query[q].second)
				{
					sim::fail("handler_mismatch", (tag + "query").c_str(), "well-formed request: query parameter %zu differs", q);
					break;
				}
			for (size_t h = 0; h < s->oHeaders.size() && h < s->headers.size(); h++)
				if (!sameHeader(s, h))
					sim::fail("handler_mismatch", (tag + (h == 0 && s->fold ? "header;folded" : s->hdrSep ? "header;separator" : "header")).c_str(), "well-formed request: header %s sent '%s'%s, handler saw '%s'", s->headers[h].first.c_str(),
					          printable(s->headers[h].second).c_str(), h == 0 && s->fold ? (s->fold == 1 ? " (folded over two lines)" : " (folded over three lines)") : s->hdrSep ? " (white space after the colon: none, one, two blanks or a tab)" : "",
					          printable(s->oHeaders[h].second).c_str());
			if (s->oBody != s->body)
				sim::fail("handler_mismatch", (tag + (s->chunkedUpload ? "body;chunked" : "body;length")).c_str(), "well-formed request: body of %zu bytes sent, handler saw %zu bytes (first difference at %zu)", s->body.size(), s->oBody.size(),
				          firstDiff(s->body, s->oBody));
		};
		const bool judgedExactly = pe.sentAll && pe.stallMs < 4000 && !p.get("relaxed");
		if (pe.follower && judgedExactly)
			sim::probe(pe.follower->handlerCalls > 0 ? "pipelined_second_request_dispatched" : "pipelined_second_request_dropped");
		if (s->hdrSep && judgedExactly)
			sim::probe("header_separator_variants");
		if (s->fold && judgedExactly)
			sim::probe(s->fold == 1 ? "header_folded_2_lines" : "header_folded_3_lines");
		if (s->badLine && judgedExactly)
			sim::probe("header_line_without_colon_dispatched");
		if (pe.follower && pe.follower->handlerCalls > 0 && judgedExactly)
			exact(pe.follower, "pipelined_second;"); // the second of two requests sent back to back: dropped, or handed over as sent
		if (s->badLine)
		{
			// a head with a line that is no header: the connection may be dropped, or the rest handed over as sent - not a request with the
			// headers behind the bad line and the body missing
			if (judgedExactly && (s->oBody != s->body || s->oMethod != s->method))
				sim::fail("handler_mismatch", "dispatched_malformed_head", "a request whose header block contains a line without a colon was handed to the application with %zu of its %zu body bytes", s->oBody.size(), s->body.size());
			continue;
		}
		if (judgedExactly)
		{
			// a complete well-formed request (a peer that stalls beyond the library's 5-10 s waits, or a run in which the scheduler may starve threads
			// for arbitrary simulated time, is treated like one that
			// stopped sending: the application may then see the part that had arrived): the application must have seen exactly what was sent
			exact(s, pe.follower ? "pipelined_first;" : "");
		}
		else if (!s->chunkedUpload)
		{
			// cut stream: whatever reached the application must be a prefix of what was sent
			if (s->oBody.size() > s->body.size() || s->body.compare(0, s->oBody.size(), s->oBody) != 0)
				sim::fail("handler_mismatch", "body;cut", "cut request: handler saw a body that is not a prefix of the bytes sent");
			for (size_t h = 0; h < s->oHeaders.size() && h < s->headers.size(); h++)
			{
				std::string got = s->oHeaders[h].second, sent = s->headers[h].second;
				if (h == 0 && s->fold && got != "\x01<absent>")
				{
					got.erase(std::remove_if(got.begin(), got.end(), [](char c) { return c == ' ' || c == '\t'; }), got.end());
					sent.erase(std::remove_if(sent.begin(), sent.end(), [](char c) { return c == ' ' || c == '\t'; }), sent.end());
				}
				if (got != "\x01<absent>" && sent.compare(0, got.size(), got) != 0)
					sim::fail("handler_mismatch", "header;cut", "cut request: handler saw header %s = '%s', not a prefix of what was sent", s->headers[h].first.c_str(), printable(got).c_str());
			}
		}
	}
	if (nontrivial)
		sim::setNontrivial();
}

} // namespace

REGISTER_SCENARIO(c09_hostile, "C09", "hostile_stream", genHostile, runHostile, 20000, 1500000, {4, 16, 64}, 0, 3000000, 400.0,
                  "non-trivial: a stream was cut strictly inside it (after the request line started, before its end), or a block of enumerated request targets was parsed; distinct by plan hash x context-switch signature",
                  "src/Http.cpp (HttpRequest::read, readHeaders, readBody, Url), src/HttpServer.cpp (serve loop, serveFile, Range handling), src/Socket.cpp, src/SocketServer.cpp, src/File.cpp",
                  "network (TCP stub: fragmentation, latency, peer close at any offset, stalls), disk (/sim/www + canaries outside it, access log), clock, pthread primitives; hostile peers are harness code", false);
