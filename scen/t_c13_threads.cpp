// C13 — Thread start/join, ThreadGroup, parallel_for/parallel_invoke, Semaphore, Condition.
// Flavour T: every memory access of Thread.h / Mutex.h and of the task bodies is a schedule point.
#include "scen/common.h"
#include <asl/Thread.h>
#include <asl/Mutex.h>

using namespace scn;

namespace {

// ---------------------------------------------------------------- task bodies
// body kinds: 0 empty, 1 short, 2 yielding (k plain accesses), 3 sleeping on the simulated clock
struct Body
{
	int kind, k;
	mutable volatile int scratch;
	void operator()() const
	{
		switch (kind)
		{
		case 1: scratch = scratch + 1; break;
		case 2:
			for (int i = 0; i < k; i++)
				scratch = scratch + i;
			break;
		case 3: asl::sleep(0.001 * (k + 1)); break;
		default: break;
		}
	}
};

struct Cell
{
	volatile int runs = 0;
	volatile int done = 0; // written at the very end of the body
	volatile int value = 0;
};

// ================================================================ thread_basic
struct SubThread : public asl::Thread
{
	Cell* c;
	Body b;
	SubThread(Cell* c_, Body b_) : c(c_), b(b_) {}
	void run()
	{
		c->runs = c->runs + 1;
		b();
		c->value = 0x5a5a;
		c->done = 1;
	}
};

void genBasic(Prng& r, Plan& p, int)
{
	int n = 1 + (int)r.below(3);
	p.p["join_reverse"] = r.below(2);
	p.p["second_wave"] = r.below(4) == 0 ? 1 + r.below(3) : 0;
	p.p["assign"] = r.below(3) == 0;
	for (int i = 0; i < n; i++)
	{
		int kind = (int)r.below(2); // 0 subclass, 1 lambda
		int body = (int)r.below(4);
		p.ops.push_back(op("thr", {kind, body, (int64_t)r.below(6)}));
	}
}

void runBasic(const Plan& p)
{
	size_t n = 0;
	for (auto& o : p.ops)
		if (o.k == "thr")
			n++;
	if (n > 6)
		n = 6;
	std::vector<Cell> cells(n);
	std::vector<asl::Thread*> thr(n, nullptr);
	std::vector<asl::Thread*> sources; // assigned-from objects (see below)
	struct FreeSources
	{
		std::vector<asl::Thread*>& v;
		~FreeSources()
		{
			for (auto* t : v)
				delete t;
		}
	} freeSources{sources};
	const bool assigned = p.get("assign") != 0;
	std::vector<int> kinds(n, 0);
	size_t i = 0;
	bool empties = false;
	for (auto& o : p.ops)
	{
		if (o.k != "thr" || i >= n)
			continue;
		int kind = (int)(o.arg(0) & 1), body = (int)(o.arg(1) & 3), k = (int)(o.arg(2) % 8);
		if (k < 0) k = 0;
		kinds[i] = kind;
		Body b{body, k, 0};
		if (body == 0)
			empties = true;
		Cell* c = &cells[i];
		sim::event("start %s body=%d", kind ? "lambda" : "subclass", body);
		if (kind == 0)
		{
			thr[i] = new SubThread(c, b);
			thr[i]->start();
		}
		else
		{
			auto fn = [c, b]() {
				c->runs = c->runs + 1;
				b();
				c->value = 0x5a5a;
				c->done = 1;
			};
			if (p.get("assign"))
			{
				// the handle reaches its final object by assignment ("copying a Thread transfers the handle"): the running
				// thread now belongs to the assigned-to object. The source object is kept alive until the end of the run:
				// the library lets the running thread write its finished flag into the *source* object (DESIGN section 9,
				// defect 25 and its residual), and a destroyed source would turn that write into memory corruption of the harness.
				asl::Thread* src = new asl::Thread(fn);
				sources.push_back(src);
				thr[i] = new asl::Thread();
				*thr[i] = *src;
			}
			else
				thr[i] = new asl::Thread(fn);
		}
		i++;
	}
	if (n >= 2 || empties)
		sim::setNontrivial();
	bool rev = p.get("join_reverse") != 0;
	for (size_t q = 0; q < n; q++)
	{
		size_t j = rev ? n - 1 - q : q;
		thr[j]->join();
		const char* kn = kinds[j] ? (assigned ? "lambda;assigned" : "lambda") : "subclass";
		{
			sim::NoSched ns;
			if (cells[j].runs != 1)
				sim::fail("exactly_once", kn, "%s thread %zu: run function executed %d times when join() returned", kn, j, cells[j].runs);
			else if (!cells[j].done || cells[j].value != 0x5a5a)
				sim::fail("join_visibility", kn, "%s thread %zu: join() returned before the run function completed (done=%d value=%x)", kn, j, cells[j].done, cells[j].value);
			if (!thr[j]->finished())
				sim::fail("finished_false_after_join", kn, "%s thread %zu: finished() is false after join()", kn, j);
		}
		sim::event("joined %zu runs=%d", j, cells[j].runs);
	}
	// second wave: new threads are started while the joined Thread objects of the first wave are still alive, and those
	// objects are destroyed while the new threads run (a joined object must not own anything any more: the OS reuses thread
	// identifiers, and a stale one would now name a thread of the second wave)
	if (p.get("second_wave"))
	{
		size_t m = 1 + (size_t)(std::abs(p.get("second_wave")) % 3);
		std::vector<Cell> cells2(m);
		std::vector<asl::Thread*> thr2(m, nullptr);
		for (size_t q = 0; q < m; q++)
		{
			Cell* c = &cells2[q];
			thr2[q] = new asl::Thread([c]() {
				c->runs = c->runs + 1;
				asl::sleep(0.05);
				c->value = 0x5a5a;
				c->done = 1;
			});
		}
		for (size_t j = 0; j < n; j++)
		{
			delete thr[j];
			thr[j] = nullptr;
		}
		for (size_t q = 0; q < m; q++)
		{
			thr2[q]->join();
			sim::NoSched ns;
			if (cells2[q].runs != 1 || !cells2[q].done || cells2[q].value != 0x5a5a)
				sim::fail("join_visibility", "lambda;second_wave", "thread %zu of a second wave (started after %zu earlier threads had been joined, whose objects were destroyed meanwhile): join() returned before its run function completed (runs=%d done=%d)", q, n,
				          cells2[q].runs, cells2[q].done);
		}
		for (size_t q = 0; q < m; q++)
			delete thr2[q];
		return;
	}
	for (size_t j = 0; j < n; j++)
	{
		{
			sim::NoSched ns;
			if (!thr[j]->finished())
				sim::fail("finished_false_after_join", kinds[j] ? (assigned ? "lambda;assigned;later" : "lambda;later") : "subclass;later", "thread %zu: finished() turned false later", j);
			if (cells[j].runs != 1)
				sim::fail("exactly_once", kinds[j] ? "lambda" : "subclass", "thread %zu: run count %d at the end", j, cells[j].runs);
		}
		delete thr[j];
	}
}

// ================================================================ parallel_for
void genPfor(Prng& r, Plan& p, int tier)
{
	int64_t i0 = biased(r, -3, 40, {-3, 0, 40});
	int64_t i1 = biased(r, -3, 40, {-3, 0, 1, 40});
	if (r.below(4) == 0)
		i1 = i0 + (int64_t)r.below(3);
	if (tier && r.below(50) == 0)
	{
		i0 = r.range(-1000, 1000);
		i1 = i0 + r.range(0, 300);
	}
	int64_t n = biased(r, 1, 12, {1, 2, 8, 12});
	uint64_t idx = genRunIndex();
	if (idx % 2 == 0 && idx < 0xfffffff0ULL)
	{
		// every second run walks through all 44 x 44 x 12 = 23 232 (i0, i1, n) triples of the quantifier in order,
		// each time under a different seeded schedule
		uint64_t t = (idx / 2) % 23232;
		n = 1 + (int64_t)(t % 12);
		i1 = -3 + (int64_t)((t / 12) % 44);
		i0 = -3 + (int64_t)(t / (12 * 44));
	}
	if (idx % 2 == 1 && r.below(12) == 0)
	{
		// "sampled larger ranges": short ranges at the two ends of int, where index + stride leaves the type
		int64_t len = (int64_t)r.below(41);
		if (r.below(2))
		{
			i1 = 2147483647LL - (int64_t)r.below(3);
			i0 = i1 - len;
		}
		else
		{
			i0 = -2147483648LL + (int64_t)r.below(3);
			i1 = i0 + len;
		}
	}
	p.p["i0"] = i0;
	p.p["i1"] = i1;
	p.p["n"] = n;
	p.p["body"] = r.below(3);
	p.p["k"] = r.below(5);
}

void runPfor(const Plan& p)
{
	int64_t a0 = std::max<int64_t>(-2147483648LL, std::min<int64_t>(2147483647LL, p.get("i0"))), a1 = std::max<int64_t>(-2147483648LL, std::min<int64_t>(2147483647LL, p.get("i1")));
	if (a1 - a0 > 4000)
		a1 = a0 + 4000;
	int i0 = (int)a0, i1 = (int)a1, n = (int)p.get("n", 1);
	if (n < 1) n = 1;
	if (n > 12) n = 12;
	const int64_t lo = std::min(a0, a1) - 16, hi = std::max(a0, a1) + 16; // (64-bit: the range may touch either end of int)
	std::vector<int> cnt((size_t)(hi - lo + 1), 0);
	std::vector<int> finished((size_t)(hi - lo + 1), 0);
	volatile int inflight = 0;
	volatile int outOfRange = 0;
	Body b{(int)p.get("body") % 3, (int)(p.get("k") % 6), 0};
	int* cp = cnt.data();
	int* fp = finished.data();
	volatile int* infl = &inflight;
	volatile int* oor = &outOfRange;
	sim::event("parallel_for %d %d n=%d", i0, i1, n);
	asl::Thread::parallel_for(i0, i1, [=](int i) {
		__sync_fetch_and_add(infl, 1);
		if ((int64_t)i < lo || (int64_t)i > hi)
			__sync_fetch_and_add(oor, 1);
		else
			__sync_fetch_and_add(&cp[(int64_t)i - lo], 1);
		b();
		if ((int64_t)i >= lo && (int64_t)i <= hi)
			fp[(int64_t)i - lo] = 1;
		__sync_fetch_and_sub(infl, 1);
	}, n);
	sim::NoSched ns;
	if (a1 - a0 >= 2 && n >= 2)
		sim::setNontrivial();
	if (a1 > 2147483647LL - 12 || a0 < -2147483648LL + 12)
		sim::probe("range_at_an_end_of_int");
	sim::mixCaseSig((uint64_t)(a0 + 5000) * 100003 + (uint64_t)(a1 + 5000) * 13 + (uint64_t)n);
	if (inflight != 0)
		sim::fail("returned_early", "parallel_for", "parallel_for(%d,%d,n=%d) returned with %d invocations in flight", i0, i1, n, inflight);
	if (outOfRange)
		sim::fail("wrong_index", "parallel_for", "parallel_for(%d,%d,n=%d) invoked f with %d indices far outside the range", i0, i1, n, outOfRange);
	for (int64_t i = lo; i <= hi; i++)
	{
		int want = (i >= a0 && i < a1) ? 1 : 0;
		int c = cnt[(size_t)(i - lo)];
		if (c != want)
		{
			sim::fail(c > want ? (want ? "exactly_once" : "wrong_index") : "missed_index", "parallel_for", "parallel_for(%d,%d,n=%d): f(%lld) invoked %d times, expected %d", i0, i1, n, (long long)i,
			          c, want);
			break;
		}
		if (want && !finished[(size_t)(i - lo)])
		{
			sim::fail("returned_early", "parallel_for", "parallel_for(%d,%d,n=%d): f(%lld) had not completed at return", i0, i1, n, (long long)i);
			break;
		}
	}
}

// ================================================================ parallel_invoke
void genPinv(Prng& r, Plan& p, int)
{
	p.p["k"] = 2 + r.below(3);
	for (int i = 0; i < 4; i++)
		p.ops.push_back(op("body", {(int64_t)r.below(4), (int64_t)r.below(5)}));
}
void runPinv(const Plan& p)
{
	int k = (int)p.get("k", 2);
	if (k < 2) k = 2;
	if (k > 4) k = 4;
	Cell cells[4];
	Body bodies[4] = {{0, 0, 0}, {0, 0, 0}, {0, 0, 0}, {0, 0, 0}};
	size_t bi = 0;
	for (auto& o : p.ops)
		if (o.k == "body" && bi < 4)
		{
			bodies[bi] = Body{(int)(o.arg(0) & 3), (int)(o.arg(1) % 6), 0};
			bi++;
		}
	auto mk = [&](int i) {
		Cell* c = &cells[i];
		Body b = bodies[i];
		return [c, b]() {
			c->runs = c->runs + 1;
			b();
			c->done = 1;
		};
	};
	auto f0 = mk(0), f1 = mk(1), f2 = mk(2), f3 = mk(3);
	sim::event("parallel_invoke %d", k);
	if (k == 2)
		asl::Thread::parallel_invoke(f0, f1);
	else if (k == 3)
		asl::Thread::parallel_invoke(f0, f1, f2);
	else
		asl::Thread::parallel_invoke(f0, f1, f2, f3);
	sim::NoSched ns;
	sim::setNontrivial();
	for (int i = 0; i < k; i++)
	{
		if (cells[i].runs != 1)
			sim::fail("exactly_once", "parallel_invoke", "parallel_invoke with %d callables: callable %d ran %d times", k, i, cells[i].runs);
		else if (!cells[i].done)
			sim::fail("returned_early", "parallel_invoke", "parallel_invoke with %d callables returned before callable %d completed", k, i);
	}
	for (int i = k; i < 4; i++)
		if (cells[i].runs)
			sim::fail("wrong_index", "parallel_invoke", "callable %d not passed but ran", i);
}

// ================================================================ thread_group
struct GWorker : public asl::Thread
{
	Cell* c;
	Body b;
	GWorker() : c(0), b{0, 0, 0} {}
	GWorker(Cell* c_, Body b_) : c(c_), b(b_) {}
	void run()
	{
		c->runs = c->runs + 1;
		b();
		c->done = 1;
	}
};
void genGroup(Prng& r, Plan& p, int)
{
	int n = 1 + (int)r.below(6);
	for (int i = 0; i < n; i++)
		p.ops.push_back(op("w", {(int64_t)r.below(4), (int64_t)r.below(5)}));
	p.p["rounds"] = r.below(3) == 0 ? 2 + r.below(2) : 1; // the same group started and joined again
}
void runGroup(const Plan& p)
{
	std::vector<Body> bodies;
	for (auto& o : p.ops)
		if (o.k == "w" && bodies.size() < 8)
			bodies.push_back(Body{(int)(o.arg(0) & 3), (int)(o.arg(1) % 6), 0});
	size_t n = bodies.size();
	std::vector<Cell> cells(n);
	{
		asl::ThreadGroup<GWorker> grp;
		for (size_t i = 0; i < n; i++)
			grp << GWorker(&cells[i], bodies[i]);
		int rounds = (int)std::max<int64_t>(1, std::min<int64_t>(3, p.get("rounds", 1)));
		for (int round = 1; round <= rounds; round++)
		{
			sim::event("group start %zu (round %d)", n, round);
			grp.start();
			grp.join();
			sim::NoSched ns;
			if (n >= 2)
				sim::setNontrivial();
			const char* key = round == 1 ? "thread_group" : "thread_group;restarted";
			for (size_t i = 0; i < n; i++)
			{
				if (cells[i].runs != round)
					sim::fail("exactly_once", key, "ThreadGroup of %zu, start/join round %d: member %zu had run %d times when join() returned", n, round, i, cells[i].runs);
				else if (!cells[i].done)
					sim::fail("join_visibility", key, "ThreadGroup of %zu, start/join round %d: join() returned before member %zu completed", n, round, i);
				if (!grp._threads[(int)i].finished())
					sim::fail("finished_false_after_join", key, "ThreadGroup member %zu: finished() false after join() (round %d)", i, round);
				cells[i].done = 0;
			}
		}
	}
}

// ================================================================ semaphore
// ops: post(thread, n)  wait(thread) twait(thread, ms) trywait(thread)
void genSem(Prng& r, Plan& p, int)
{
	int P = 1 + (int)r.below(2), C = 1 + (int)r.below(3);
	p.p["producers"] = P;
	p.p["consumers"] = C;
	p.p["initial"] = r.below(3) == 0 ? r.below(3) : 0;
	int posts = 0, waits = 0;
	int nops = 2 + (int)r.below(8);
	for (int i = 0; i < nops; i++)
	{
		uint32_t k = r.below(10);
		if (k < 4)
		{
			int n = r.below(3) == 0 ? 1 + (int)r.below(3) : 0; // 0: post(), >0: post(n)
			p.ops.push_back(op("post", {(int64_t)r.below(P), n}));
			posts += n ? n : 1;
		}
		else if (k < 7)
		{
			p.ops.push_back(op("wait", {(int64_t)r.below(C)}));
			waits++;
		}
		else if (k < 9)
		{
			p.ops.push_back(op("twait", {(int64_t)r.below(C), (int64_t)(1 + r.below(50))}));
			waits++; // may take a post that an untimed wait needs
		}
		else
		{
			p.ops.push_back(op("trywait", {(int64_t)r.below(C)}));
			waits++;
		}
	}
	// liveness needs enough posts for the untimed waits
	while (posts + p.p["initial"] < waits)
	{
		p.ops.push_back(op("post", {(int64_t)r.below(P), 0}));
		posts++;
	}
	p.p["clock_jump_ms"] = r.below(6) == 0 ? r.range(-200000, 3600000) : 0;
}
void runSem(const Plan& p)
{
	int P = (int)std::max<int64_t>(1, std::min<int64_t>(3, p.get("producers", 1)));
	int C = (int)std::max<int64_t>(1, std::min<int64_t>(4, p.get("consumers", 1)));
	int initial = (int)std::max<int64_t>(0, std::min<int64_t>(5, p.get("initial", 0)));
	struct Act
	{
		int kind, n;
	};
	std::vector<std::vector<Act>> prod((size_t)P), cons((size_t)C);
	int posts = initial, untimed = 0, maybe = 0;
	for (auto& o : p.ops)
	{
		if (o.k == "post")
		{
			int n = (int)std::max<int64_t>(0, std::min<int64_t>(4, o.arg(1)));
			prod[(size_t)(std::abs(o.arg(0)) % P)].push_back(Act{0, n});
			posts += n ? n : 1;
		}
		else if (o.k == "wait")
		{
			cons[(size_t)(std::abs(o.arg(0)) % C)].push_back(Act{1, 0});
			untimed++;
		}
		else if (o.k == "twait")
		{
			cons[(size_t)(std::abs(o.arg(0)) % C)].push_back(Act{2, (int)std::max<int64_t>(1, std::min<int64_t>(100, o.arg(1)))});
			maybe++;
		}
		else if (o.k == "trywait")
		{
			cons[(size_t)(std::abs(o.arg(0)) % C)].push_back(Act{3, 0});
			maybe++;
		}
	}
	if (untimed + maybe > posts)
		return; // shrunk plan without enough posts: would block by construction, not a library fault
	asl::Semaphore sem(initial);
	volatile int consumed = 0;
	volatile int* cp = &consumed;
	std::vector<Task> tasks((size_t)(P + C));
	for (int i = 0; i < P; i++)
		tasks[(size_t)i].start([&, i]() {
			for (auto& a : prod[(size_t)i])
			{
				if (a.n)
					sem.post(a.n);
				else
					sem.post();
				sim::event("post %d", a.n ? a.n : 1);
			}
		});
	for (int i = 0; i < C; i++)
		tasks[(size_t)(P + i)].start([&, i]() {
			for (auto& a : cons[(size_t)i])
			{
				bool got = true;
				if (a.kind == 1)
					sem.wait();
				else if (a.kind == 2)
					got = sem.wait(a.n * 0.001);
				else
					got = sem.trywait();
				if (got)
					__sync_fetch_and_add(cp, 1);
				sim::event("wait kind=%d got=%d", a.kind, got ? 1 : 0);
			}
		});
	if (p.get("clock_jump_ms"))
	{
		sim::yield();
		sim::clockJumpSeconds(p.get("clock_jump_ms") * 0.001);
	}
	for (auto& t : tasks)
		t.join();
	int v = sem.value();
	sim::NoSched ns;
	if (P + C >= 3)
		sim::setNontrivial();
	if (consumed + v != posts)
		sim::fail("lost_post", "semaphore", "semaphore conservation broken: %d posts (incl. initial %d), %d successful waits, final value %d", posts, initial, consumed, v);
}

// ================================================================ condition
void genCond(Prng& r, Plan& p, int)
{
	p.p["waiters"] = 1 + r.below(3);
	p.p["timed"] = r.below(3) == 0;
	p.p["setter_delay"] = r.below(4);
	p.p["clock_jump_ms"] = r.below(8) == 0 ? r.range(-200000, 3600000) : 0;
	// timed waits with fractional timeouts, started at an arbitrary phase of the wall-clock second, signalled well inside the timeout
	if (r.below(4) == 0)
	{
		p.p["late"] = 1;
		p.p["phase_ms"] = r.below(1000);
		p.p["t_ms"] = 200 + r.below(2300);
		p.p["sig_ms"] = r.below((uint32_t)std::max<int64_t>(1, p.p["t_ms"] - 150));
	}
}

// A timed wait that is signalled inside its timeout must report the signal; it may report a timeout only once the
// timeout has really elapsed (a waiter that trusts an early "timed out" gives up and misses the signal).
void runCondLate(const Plan& p)
{
	int W = (int)std::max<int64_t>(1, std::min<int64_t>(4, p.get("waiters", 1)));
	double T = std::max<int64_t>(50, std::min<int64_t>(5000, p.get("t_ms", 600))) * 0.001;
	double sig = std::max<int64_t>(0, std::min<int64_t>((int64_t)(T * 1000) - 150, p.get("sig_ms", 0))) * 0.001;
	sim::sleepFor((p.get("phase_ms") % 1000) * 0.001);
	asl::Mutex mutex;
	asl::Condition cond(mutex);
	volatile bool ready = false;
	volatile int woke = 0, early = 0;
	volatile double earliest = 1e9;
	volatile int* wp = &woke;
	volatile int* ep = &early;
	volatile double* el = &earliest;
	std::vector<Task> tasks((size_t)W + 1);
	for (int i = 0; i < W; i++)
		tasks[(size_t)i].start([&]() {
			mutex.lock();
			while (!ready)
			{
				double t0 = sim::simNow();
				bool timedOut = cond.wait(T);
				double dt = sim::simNow() - t0;
				if (timedOut && dt < T - 0.05)
				{
					*ep = *ep + 1;
					if (dt < *el)
						*el = dt;
				}
			}
			mutex.unlock();
			__sync_fetch_and_add(wp, 1);
		});
	tasks[(size_t)W].start([&]() {
		asl::sleep(sig);
		mutex.lock();
		ready = true;
		cond.signal();
		mutex.unlock();
	});
	for (auto& t : tasks)
		t.join();
	sim::NoSched ns;
	sim::setNontrivial();
	if (woke != W)
		sim::fail("lost_signal", "condition;late", "%d of %d waiters returned", woke, W);
	if (early)
		sim::fail("lost_signal", "condition;timed_wait_early_timeout", "wait(%.3f s) reported a timeout after only %.3f simulated seconds (%d times), with no clock jump; the signal was issued %.3f s after the waits began, inside the timeout", T,
		          earliest, early, sig);
}

void runCond(const Plan& p)
{
	if (p.get("late") && p.get("timed") && !p.get("clock_jump_ms"))
	{
		runCondLate(p);
		return;
	}
	int W = (int)std::max<int64_t>(1, std::min<int64_t>(4, p.get("waiters", 1)));
	bool timed = p.get("timed") != 0;
	bool jump = p.get("clock_jump_ms") != 0 && timed;
	asl::Mutex mutex;
	asl::Condition cond(mutex);
	volatile bool ready = false;
	volatile int woke = 0, timedOutAfterSignal = 0, waitingAtSignal = 0, inWait = 0;
	volatile int* wp = &woke;
	volatile int* tp = &timedOutAfterSignal;
	volatile int* iw = &inWait;
	volatile double signalAt = -1;
	volatile double* sa = &signalAt;
	std::vector<Task> tasks((size_t)W + 1);
	for (int i = 0; i < W; i++)
		tasks[(size_t)i].start([&]() {
			mutex.lock();
			while (!ready)
			{
				*iw = *iw + 1; // under the mutex: this waiter is (about to be) blocked in wait()
				if (timed)
				{
					// a long timeout: a waiter that is inside wait() when signal() is called must be woken by the signal
					bool timedOut = cond.wait(30.0);
					if (timedOut && *sa >= 0)
						*tp = *tp + 1;
				}
				else
					cond.wait();
				*iw = *iw - 1;
			}
			mutex.unlock();
			__sync_fetch_and_add(wp, 1);
		});
	int delay = (int)(p.get("setter_delay") & 3);
	tasks[(size_t)W].start([&]() {
		for (int i = 0; i < delay; i++)
			sim::yield();
		if (delay == 3)
			asl::sleep(0.01);
		mutex.lock();
		ready = true;
		waitingAtSignal = inWait;
		signalAt = sim::simNow();
		cond.signal();
		mutex.unlock();
		sim::event("signalled");
	});
	if (jump)
	{
		sim::yield();
		sim::clockJumpSeconds(p.get("clock_jump_ms") * 0.001);
	}
	for (auto& t : tasks)
		t.join();
	double endAt = sim::simNow();
	sim::NoSched ns;
	sim::setNontrivial();
	if (woke != W)
		sim::fail("lost_signal", "condition", "%d of %d waiters returned", woke, W);
	// lost signal that a re-checking waiter survives only thanks to its timeout (not judged under wall-clock jumps,
	// which legitimately move the absolute deadline of a timed wait)
	if (timed && !jump && (timedOutAfterSignal > 0 || (waitingAtSignal > 0 && endAt - signalAt > 5.0)))
		sim::fail("lost_signal", "condition;timed_waiter_woken_by_timeout", "%d timed waiters were inside wait(30 s) when signal() was issued under the mutex; they returned %.1f simulated seconds later%s", waitingAtSignal,
		          endAt - signalAt, timedOutAfterSignal ? " reporting a timeout" : "");
}

const char* REAL = "include/asl/Thread.h, Mutex.h (Thread, ThreadGroup, parallel_for, parallel_invoke, Semaphore, Condition, Mutex, Lock), atomic.h, Array.h";
const char* STUB = "pthread primitives (create/join/detach/cancel, mutex, cond, sem), clock (gettimeofday/usleep), heap table";

} // namespace

REGISTER_SCENARIO(c13_basic, "C13", "thread_basic", genBasic, runBasic, 300000, 10000000, {2, 4, 16, 64}, 30, 200000, 600.0,
                  "non-trivial: >=2 threads overlapped or a thread had an empty body (worker can finish before its creator resumes); distinct by plan x schedule signature", REAL, STUB, true);
REGISTER_SCENARIO(c13_pfor, "C13", "parallel_for", genPfor, runPfor, 300000, 10000000, {2, 4, 16, 64}, 30, 400000, 600.0,
                  "every second run enumerates the 23 232 triples (i0,i1,n) in [-3,40]^2 x [1,12] in order (the others draw boundary-biased and larger ranges); non-trivial: range of >=2 indices on >=2 threads; distinct by (i0,i1,n) x schedule signature", REAL, STUB, true);
REGISTER_SCENARIO(c13_pinv, "C13", "parallel_invoke", genPinv, runPinv, 100000, 3000000, {2, 4, 16}, 30, 200000, 600.0, "every run (2-4 callables overlap); distinct by plan x schedule signature", REAL,
                  STUB, true);
REGISTER_SCENARIO(c13_group, "C13", "thread_group", genGroup, runGroup, 100000, 3000000, {2, 4, 16}, 30, 200000, 600.0, "non-trivial: >=2 members; distinct by plan x schedule signature", REAL, STUB, true);
REGISTER_SCENARIO(c13_sem, "C13", "semaphore", genSem, runSem, 200000, 8000000, {2, 4, 16}, 30, 200000, 600.0, "non-trivial: >=3 producer/consumer threads; distinct by plan x schedule signature", REAL,
                  STUB, true);
REGISTER_SCENARIO(c13_cond, "C13", "condition", genCond, runCond, 150000, 6000000, {2, 4, 16}, 30, 200000, 600.0, "every run (waiters and setter overlap under the documented protocol)", REAL, STUB, true);
