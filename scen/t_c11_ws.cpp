// C11 under access-granular scheduling (flavour T): several WebSocket connections whose handshakes and frames are in flight at
// the same moment. Flavour A switches threads only at wrapped calls, so state shared between connections *inside* the hash,
// the Base64 codec, the key generator or the header parser (a static work block, say) is invisible to it.
#include "scen/c11_ws.inc"
} // namespace

REGISTER_SCENARIO(c11_conc_t, "C11", "ws_conc", genConc, runConc, 20000, 1500000, {16, 64, 256, 1024}, 0, 6000000, 900.0,
                  "every run (two or three sessions - independent framer clients that verify the accept key, and the library's own client - run concurrently under per-access preemption); distinct by plan hash x context-switch signature", REAL11, STUB11, true);
REGISTER_SCENARIO(c11_multi_t, "C11", "ws_multi_conc", genMultiT, runMulti, 6000, 500000, {16, 64, 256, 1024}, 0, 6000000, 900.0,
                  "every run (the client-list scenario with two or three connections under per-access preemption); distinct by plan hash x context-switch signature", REAL11, STUB11, true);
