// C12 — shared handles (Array, Map, Dic, HashMap, HashDic, Shared<T>, SmartObject classes) and
// atomic counters (AtomicCount, Atomic<T>) under seeded access-granular interleavings.
// Flavour T: every load/store/atomic of the handle code is a schedule point; the heap table turns
// an access into a freed block, a double free or a leaked block into a violation.
#include "scen/common.h"
#include <asl/Array.h>
#include <asl/Map.h>
#include <asl/HashMap.h>
#include <asl/Pointer.h>
#include <asl/Shared.h>
#include <asl/Socket.h>
#include <asl/Mutex.h>
#include <asl/atomic.h>
#include <asl/String.h>

using namespace scn;

namespace c12 {

// ---------------------------------------------------------------- instrumented payload element
static volatile int g_ctor, g_dtor, g_live, g_badDestroy, g_badRead;
const int ALIVE = 0x600DF00D, DEAD = 0x0DEADBAD;

struct Elem
{
	int magic;
	int* payload;
	int v;
	Elem() : magic(ALIVE), payload(new int(7)), v(0)
	{
		__sync_fetch_and_add(&g_ctor, 1);
		__sync_fetch_and_add(&g_live, 1);
	}
	Elem(int x) : magic(ALIVE), payload(new int(x)), v(x)
	{
		__sync_fetch_and_add(&g_ctor, 1);
		__sync_fetch_and_add(&g_live, 1);
	}
	Elem(const Elem& e) : magic(ALIVE), payload(new int(*e.payload)), v(e.v)
	{
		if (e.magic != ALIVE)
			__sync_fetch_and_add(&g_badRead, 1);
		__sync_fetch_and_add(&g_ctor, 1);
		__sync_fetch_and_add(&g_live, 1);
	}
	Elem& operator=(const Elem& e)
	{
		if (e.magic != ALIVE || magic != ALIVE)
			__sync_fetch_and_add(&g_badRead, 1);
		*payload = *e.payload;
		v = e.v;
		return *this;
	}
	~Elem()
	{
		if (magic != ALIVE)
			__sync_fetch_and_add(&g_badDestroy, 1);
		magic = DEAD;
		delete payload;
		payload = 0;
		__sync_fetch_and_add(&g_dtor, 1);
		__sync_fetch_and_sub(&g_live, 1);
	}
	bool ok() const { return magic == ALIVE && payload && *payload == v; }
	bool operator==(const Elem& e) const { return v == e.v; }
};

struct Payload : public Elem
{
	Payload(int x) : Elem(x) {}
	Payload* clone() const { return new Payload(v); }
};

// node of a singly linked list held together by Shared handles
struct SNode : public Elem
{
	asl::Shared<SNode> next;
	SNode(int x) : Elem(x) {}
	SNode* clone() const { return new SNode(v); }
};

// nodes of a list held together by container handles stored inside the elements (a tree descent: cur = cur[0].kids)
struct ANode : public Elem
{
	asl::Array<ANode> kids;
	ANode() : Elem(0) {}
	ANode(int x) : Elem(x) {}
};
struct MNode : public Elem
{
	asl::Map<int, MNode> next;
	MNode() : Elem(0) {}
	MNode(int x) : Elem(x) {}
};
struct HNode : public Elem
{
	asl::HashMap<int, HNode> next;
	HNode() : Elem(0) {}
	HNode(int x) : Elem(x) {}
};

} // namespace c12
using namespace c12;

// a SmartObject-based class, the way asl's own Socket/Xml/... are built (the macros need namespace asl)
namespace asl {
ASL_SMART_CLASS(VObj, SmartObject)
{
public:
	ASL_SMART_INNER_DEF(VObj);
	Elem e;
	VObj_() : e(11) {}
	VObj_(int x) : e(x) {}
};
class VObj : public SmartObject
{
public:
	ASL_SMART_DEF(VObj, SmartObject);
	explicit VObj(int x) : ASL_SMART_INIT(x) {}
	bool ok() const { return _()->e.ok(); }
};
}

// node of a singly linked list held together by SmartObject handles
namespace asl {
ASL_SMART_CLASS(CNode, SmartObject)
{
public:
	ASL_SMART_INNER_DEF(CNode);
	Elem e;
	SmartObject next;
	CNode_(int x = 0) : e(x), next((SmartObject_*)0) {}
};
class CNode : public SmartObject
{
public:
	ASL_SMART_DEF(CNode, SmartObject);
	explicit CNode(int x) : ASL_SMART_INIT(x) {}
	bool ok() const { return _()->e.ok(); }
};
}

namespace {
typedef asl::VObj Obj;

// ---------------------------------------------------------------- per-kind adapters
template <class H>
struct K;

template <>
struct K<asl::Array<Elem>>
{
	typedef asl::Array<Elem> H;
	static void resetNull(H&) {}
	static bool dup(H& h) { h.dup(); return true; }
	static const char* name() { return "Array"; }
	static H make(int tag)
	{
		H a;
		a << Elem(tag) << Elem(tag + 1);
		return a;
	}
	static H clone(const H& h) { return h.clone(); }
	static bool read(const H& h)
	{
		bool ok = true;
		for (int i = 0; i < h.length(); i++)
			ok = ok && h[i].ok();
		return ok && h.length() == 2;
	}
	static int rc(const H& h) { return h.rc(); }
	static const void* id(const H& h) { return h.ptr(); }
};
template <>
struct K<asl::Map<int, Elem>>
{
	typedef asl::Map<int, Elem> H;
	static void resetNull(H&) {}
	static bool dup(H& h) { h.dup(); return true; }
	static const char* name() { return "Map"; }
	static H make(int tag)
	{
		H m;
		m[1] = Elem(tag);
		m[2] = Elem(tag + 1);
		return m;
	}
	static H clone(const H& h) { return h.clone(); }
	static bool read(const H& h) { return h.length() == 2 && h.has(1) && h.has(2) && h[1].ok() && h[2].ok(); }
	static int rc(const H& h) { return h.kv().rc(); }
	static const void* id(const H& h) { return h.kv().ptr(); }
};
template <>
struct K<asl::Dic<Elem>>
{
	typedef asl::Dic<Elem> H;
	static void resetNull(H&) {}
	static bool dup(H& h) { h.dup(); return true; }
	static const char* name() { return "Dic"; }
	static H make(int tag)
	{
		H m;
		m["a"] = Elem(tag);
		m["a-longer-key-on-the-heap"] = Elem(tag + 1);
		return m;
	}
	static H clone(const H& h) { return h.clone(); }
	static bool read(const H& h) { return h.length() == 2 && h.has("a") && h["a"].ok() && h["a-longer-key-on-the-heap"].ok(); }
	static int rc(const H& h) { return h.kv().rc(); }
	static const void* id(const H& h) { return h.kv().ptr(); }
};
template <>
struct K<asl::HashMap<int, Elem>>
{
	typedef asl::HashMap<int, Elem> H;
	static void resetNull(H&) {}
	static bool dup(H& h) { h.dup(); return true; }
	static const char* name() { return "HashMap"; }
	static H make(int tag)
	{
		H m(8);
		m[1] = Elem(tag);
		m[9] = Elem(tag + 1); // same bucket as 1 in an 8-slot table
		return m;
	}
	static H clone(const H& h) { return h.clone(); }
	static bool read(const H& h) { return h.length() == 2 && h.has(1) && h.has(9) && h[1].ok() && h[9].ok(); }
	static int rc(const H& h) { return (int)const_cast<H&>(h)._rc(); }
	static const void* id(const H& h) { return h.a.ptr(); }
};
template <>
struct K<asl::HashDic<Elem>>
{
	typedef asl::HashDic<Elem> H;
	static void resetNull(H&) {}
	static bool dup(H& h) { h.dup(); return true; }
	static const char* name() { return "HashDic"; }
	static H make(int tag)
	{
		H m(8);
		m["Ab"] = Elem(tag);
		m["BA"] = Elem(tag + 1);
		return m;
	}
	static H clone(const H& h) { return h.clone(); }
	static bool read(const H& h) { return h.length() == 2 && h.has("Ab") && h["Ab"].ok() && h["BA"].ok(); }
	static int rc(const H& h) { return (int)const_cast<H&>(h)._rc(); }
	static const void* id(const H& h) { return h.a.ptr(); }
};
template <>
struct K<asl::Shared<Payload>>
{
	typedef asl::Shared<Payload> H;
	static void resetNull(H& h) { h = (Payload*)0; }
	static bool dup(H&) { return false; } // no in-place detach in this class
	static const char* name() { return "Shared"; }
	static H make(int tag) { return H(new Payload(tag)); }
	static H clone(const H& h) { return h.clone(); }
	static bool read(const H& h) { return h->ok(); }
	static int rc(const H& h) { return h.refcount(); }
	static const void* id(const H& h) { return h.get(); }
};
template <>
struct K<Obj>
{
	typedef Obj H;
	static void resetNull(H&) {}
	static bool dup(H&) { return false; } // no in-place detach in this class
	static const char* name() { return "SmartObject"; }
	static H make(int tag) { return Obj(tag); }
	// SmartObject clone() is outside C12's statement (copy/assign/drop): a clone starts with a copy of the
	// source's reference count and is never freed when the source was shared - sequential defect noted in DESIGN.md 6
	static H clone(const H& h) { return Obj(h.ok() ? 5 : 6); }
	static bool read(const H& h) { return h.ok() && h.is<Obj>() && h.as<Obj>().ok(); }
	static int rc(const H& h) { return (int)h._p->rc; }
	static const void* id(const H& h) { return h._p; }
};
template <>
struct K<asl::Socket>
{
	typedef asl::Socket H;
	static void resetNull(H&) {}
	static bool dup(H&) { return false; } // no in-place detach in this class
	static const char* name() { return "Socket"; }
	static H make(int) { return asl::Socket(); }
	static H clone(const H& h) { return asl::Socket(); }
	static bool read(const H& h) { return h.is<asl::Socket>() && !h.as<asl::Socket>().isnull() && h.handle() == -1; }
	static int rc(const H& h) { return (int)h._p->rc; }
	static const void* id(const H& h) { return h._p; }
};

// ---------------------------------------------------------------- the handle scenario
// ops: h(thread, kind, dst, src)   kind: 0 copy 1 assign 2 fresh 3 drop 4 clone 5 read 6 dup (detach in place)
const int SLOTS = 3;

template <class H>
struct Worker
{
	H* slot[SLOTS] = {0, 0, 0};
	int obj[SLOTS] = {-1, -1, -1}; // model: object identity per slot (0 = the shared object)
	std::vector<Op> ops;
	int tidx = 0;
	int nextObj = 0;
	volatile int opsDone = 0;
	bool badRead = false;

	void put(int d, H* h, int o)
	{
		if (slot[d])
			delete slot[d];
		slot[d] = h;
		obj[d] = o;
	}
	void run()
	{
		for (auto& o : ops)
		{
			int kind = (int)(std::abs(o.arg(1)) % 8), d = (int)(std::abs(o.arg(2)) % SLOTS), s = (int)(std::abs(o.arg(3)) % SLOTS);
			switch (kind)
			{
			case 0:
				if (slot[s] && d != s)
					put(d, new H(*slot[s]), obj[s]);
				break;
			case 1:
				if (slot[s] && slot[d]) // d == s: a handle assigned to itself
				{
					*slot[d] = *slot[s];
					obj[d] = obj[s];
				}
				break;
			case 2:
				if (slot[d])
				{
					*slot[d] = K<H>::make(100 * (tidx + 1));
					obj[d] = (tidx + 1) * 1000 + nextObj++;
				}
				else
					put(d, new H(K<H>::make(100 * (tidx + 1))), (tidx + 1) * 1000 + nextObj++);
				break;
			case 3:
				if (slot[d])
				{
					delete slot[d];
					slot[d] = 0;
					obj[d] = -1;
				}
				break;
			case 4:
				if (slot[s] && d != s)
					put(d, new H(K<H>::clone(*slot[s])), (tidx + 1) * 1000 + nextObj++);
				break;
			case 5:
				if (slot[s] && !K<H>::read(*slot[s]))
					badRead = true;
				break;
			case 7:
				// the handle is reset with a null raw pointer where the class allows it (Shared: h = (T*)0) and then dropped
				if (slot[d])
				{
					K<H>::resetNull(*slot[d]);
					delete slot[d];
					slot[d] = 0;
					obj[d] = -1;
				}
				break;
			case 6:
				// "makes this array independent of others": the handle leaves the shared object and owns a private copy
				if (slot[s] && K<H>::dup(*slot[s]))
					obj[s] = (tidx + 1) * 1000 + nextObj++;
				break;
			}
			opsDone = opsDone + 1;
		}
	}
	static void tramp(void* p) { ((Worker*)p)->run(); }
};

void genHandles(Prng& r, Plan& p, int tier)
{
	int T = 2 + (int)r.below(2);
	if (tier && r.below(10) == 0)
		T = 4 + (int)r.below(5); // high-contention runs (thorough tier)
	p.p["threads"] = T;
	p.p["main_drops_first"] = r.below(2);
	p.p["keep"] = r.below(3) == 0; // workers keep their handles; main drops them after join
	for (int t = 0; t < T; t++)
	{
		int n = 1 + (int)r.below(4);
		for (int i = 0; i < n; i++)
		{
			// bias: most ops touch slot 0, which holds the shared object
			int kind = (int)r.below(8);
			int d = r.below(2) ? 0 : (int)r.below(SLOTS), s = r.below(2) ? 0 : (int)r.below(SLOTS);
			p.ops.push_back(op("h", {t, kind, d, s}));
		}
	}
}

template <class H>
void runHandles(const Plan& p)
{
	int T = (int)std::max<int64_t>(1, std::min<int64_t>(8, p.get("threads", 2)));
	{
		// warm-up: function-local statics of the library (e.g. the default element returned by
		// Map::operator[] const) are constructed once per process and are not part of this run's accounting
		sim::NoSched ns;
		H tmp = K<H>::make(0);
		H tmp2 = K<H>::clone(tmp);
		K<H>::read(tmp2);
	}
	g_ctor = g_dtor = g_live = g_badDestroy = g_badRead = 0;
	sim::enableDestructionRaceOracle(true); // "no access races with its destruction", memory orders honoured
	size_t heap0 = sim::heapLive();
	{
		std::vector<Worker<H>> w((size_t)T);
		H* shared = new H(K<H>::make(1));
		for (int t = 0; t < T; t++)
		{
			w[(size_t)t].tidx = t;
			w[(size_t)t].slot[0] = new H(*shared); // the creator makes each worker's initial handle
			w[(size_t)t].obj[0] = 0;
		}
		size_t perThread[8] = {0, 0, 0, 0, 0, 0, 0, 0};
		for (auto& o : p.ops)
			if (o.k == "h")
			{
				size_t t = (size_t)(std::abs(o.arg(0)) % T);
				if (perThread[t]++ < 4)
					w[t].ops.push_back(o);
			}
		sim::event("%s handles threads=%d", K<H>::name(), T);
		std::vector<sim::TaskId> ids;
		for (int t = 0; t < T; t++)
			ids.push_back(sim::spawn(Worker<H>::tramp, &w[(size_t)t]));
		bool mainFirst = p.get("main_drops_first") != 0;
		if (mainFirst)
		{
			delete shared;
			shared = 0;
		}
		bool overlapped = false;
		{
			// did at least two threads operate while the others were not finished?
			int active = 0;
			for (int t = 0; t < T; t++)
				if (!sim::taskFinished(ids[(size_t)t]))
					active++;
			overlapped = active >= 2;
		}
		for (auto id : ids)
			sim::joinTask(id);
		{
			sim::NoSched ns;
			if (overlapped)
				sim::setNontrivial();
			// (iii) reference counts and contents at a quiescent moment
			std::map<int, int> handles;
			std::map<int, const void*> ident;
			if (shared)
				handles[0]++;
			for (auto& x : w)
				for (int s = 0; s < SLOTS; s++)
					if (x.slot[s])
						handles[x.obj[s]]++;
			if (shared)
				ident[0] = K<H>::id(*shared);
			for (auto& x : w)
			{
				if (x.badRead)
					sim::fail("wrong_content", K<H>::name(), "a thread read damaged contents through its own live handle");
				for (int s = 0; s < SLOTS; s++)
					if (x.slot[s])
					{
						int o = x.obj[s];
						const void* idp = K<H>::id(*x.slot[s]);
						if (ident.count(o) && ident[o] != idp)
							sim::fail("wrong_object", K<H>::name(), "two handles that the model says share object %d point to different objects", o);
						ident[o] = idp;
						int rc = K<H>::rc(*x.slot[s]);
						if (rc != handles[o])
							sim::fail("refcount_mismatch", K<H>::name(), "object %d: reference count %d but %d handles exist (thread %d slot %d)", o, rc, handles[o], x.tidx, s);
						if (!K<H>::read(*x.slot[s]))
							sim::fail("wrong_content", K<H>::name(), "object %d reads back damaged through a live handle", o);
					}
			}
		}
		// drop everything that is left (main is "another thread" for the kept handles)
		for (auto& x : w)
			for (int s = 0; s < SLOTS; s++)
				if (x.slot[s])
				{
					delete x.slot[s];
					x.slot[s] = 0;
				}
		if (shared)
			delete shared;
	}
	sim::NoSched ns;
	if (g_badDestroy)
		sim::fail("double_destroy", K<H>::name(), "%d payload elements destroyed twice", g_badDestroy);
	if (g_badRead)
		sim::fail("use_after_destroy", K<H>::name(), "%d payload elements copied from after their destruction", g_badRead);
	if (g_live != 0 || g_ctor != g_dtor)
		sim::fail(g_live > 0 ? "leak" : "double_destroy", K<H>::name(), "after the last handle was dropped: %d payload elements live (constructed %d, destroyed %d)", g_live, g_ctor, g_dtor);
	if (sim::heapTracking() && sim::heapLive() != heap0)
		sim::fail("leak", (std::string(K<H>::name()) + ";heap").c_str(), "heap blocks live after the last handle was dropped: %zu (before: %zu)", sim::heapLive(), heap0);
}

void runArray(const Plan& p) { runHandles<asl::Array<Elem>>(p); }
void runMap(const Plan& p) { runHandles<asl::Map<int, Elem>>(p); }
void runDic(const Plan& p) { runHandles<asl::Dic<Elem>>(p); }
void runHashMap(const Plan& p) { runHandles<asl::HashMap<int, Elem>>(p); }
void runHashDic(const Plan& p) { runHandles<asl::HashDic<Elem>>(p); }
void runShared(const Plan& p) { runHandles<asl::Shared<Payload>>(p); }
void runSmart(const Plan& p) { runHandles<Obj>(p); }
void runSocket(const Plan& p) { runHandles<asl::Socket>(p); }

// ================================================================ AtomicCount
// ops: c(thread, kind)  kind 0 ++, 1 --, 2 read
void genCount(Prng& r, Plan& p, int tier)
{
	int T = 2 + (int)r.below(2);
	bool heavy = tier && r.below(10) == 0;
	if (heavy)
		T = 8 + (int)r.below(9); // up to 16 threads
	p.p["threads"] = T;
	p.p["initial"] = r.range(-3, 3);
	for (int t = 0; t < T; t++)
	{
		int n = heavy ? 10 + (int)r.below(31) : 1 + (int)r.below(4);
		for (int i = 0; i < n; i++)
			p.ops.push_back(op("c", {t, (int64_t)r.below(3)}));
	}
}
void runCount(const Plan& p)
{
	int T = (int)std::max<int64_t>(1, std::min<int64_t>(16, p.get("threads", 2)));
	int initial = (int)p.get("initial");
	asl::AtomicCount cnt(initial);
	std::vector<std::vector<int>> ops((size_t)T);
	int incs = 0, decs = 0;
	for (auto& o : p.ops)
		if (o.k == "c")
		{
			size_t t = (size_t)(std::abs(o.arg(0)) % T);
			int k = (int)(std::abs(o.arg(1)) % 3);
			if (ops[t].size() < 48)
			{
				ops[t].push_back(k);
				incs += k == 0;
				decs += k == 1;
			}
		}
	volatile int bad = 0;
	volatile int* badp = &bad;
	int lo = initial - decs, hi = initial + incs;
	std::vector<Task> tasks((size_t)T);
	for (int t = 0; t < T; t++)
		tasks[(size_t)t].start([&, t]() {
			for (int k : ops[(size_t)t])
			{
				int v;
				if (k == 0)
					v = ++cnt;
				else if (k == 1)
					v = --cnt;
				else
					v = cnt;
				if (v < lo || v > hi)
					__sync_fetch_and_add(badp, 1);
			}
		});
	for (auto& t : tasks)
		t.join();
	sim::NoSched ns;
	if (T >= 2)
		sim::setNontrivial();
	int fin = cnt;
	if (fin != initial + incs - decs)
		sim::fail("lost_update", "AtomicCount", "AtomicCount: initial %d, %d increments, %d decrements, final value %d", initial, incs, decs, fin);
	if (bad)
		sim::fail("impossible_value", "AtomicCount", "an operation returned a value no serial order can produce (%d times)", bad);
}

// ================================================================ Atomic<T>
// ops: a(thread, kind, arg)  kind 0 ++pre 1 post++ 2 --pre 3 post-- 4 += 5 -= 6 snapshot 7 append (array variant)
void genAtomic(Prng& r, Plan& p, int tier)
{
	int T = 2 + (int)r.below(2);
	bool heavy = tier && r.below(10) == 0;
	if (heavy)
		T = 8 + (int)r.below(9);
	p.p["threads"] = T;
	p.p["type"] = r.below(3); // 0 int, 1 double, 2 Array<int>
	p.p["publish"] = r.below(3) == 0; // Array<int> only: published value (assign + copy construction) instead of appends
	for (int t = 0; t < T; t++)
	{
		int n = heavy ? 10 + (int)r.below(31) : 1 + (int)r.below(4);
		for (int i = 0; i < n; i++)
			p.ops.push_back(op("a", {t, (int64_t)r.below(8), (int64_t)(1 + r.below(5))}));
	}
}

template <class N>
void runAtomicNum(const Plan& p, const char* tn)
{
	int T = (int)std::max<int64_t>(1, std::min<int64_t>(16, p.get("threads", 2)));
	asl::Atomic<N> x(N(10));
	struct A
	{
		int k, n;
	};
	std::vector<std::vector<A>> ops((size_t)T);
	double plus = 0, minus = 0;
	for (auto& o : p.ops)
		if (o.k == "a")
		{
			size_t t = (size_t)(std::abs(o.arg(0)) % T);
			int k = (int)(std::abs(o.arg(1)) % 8), n = (int)(1 + std::abs(o.arg(2)) % 5);
			if (ops[t].size() >= 48)
				continue;
			ops[t].push_back(A{k, n});
			if (k == 0 || k == 1 || k == 7) plus += 1;
			if (k == 2 || k == 3) minus += 1;
			if (k == 4) plus += n;
			if (k == 5) minus += n;
		}
	volatile int bad = 0;
	volatile int* badp = &bad;
	double lo = 10 - minus, hi = 10 + plus;
	std::vector<Task> tasks((size_t)T);
	for (int t = 0; t < T; t++)
		tasks[(size_t)t].start([&, t]() {
			for (auto& a : ops[(size_t)t])
			{
				double v = 10;
				switch (a.k)
				{
				case 0: v = (double)++x; break;
				case 1: v = (double)x++; break;
				case 2: v = (double)--x; break;
				case 3: v = (double)x--; break;
				case 4: x += N(a.n); break;
				case 5: x -= N(a.n); break;
				case 6: v = (double)~x; break;
				case 7:
				{
					// read-modify-write through the object's own locked accessor, mixed with the operators of other threads
					auto l = x.locked();
					*l = *l + N(1);
					break;
				}
				}
				if (v < lo || v > hi)
					__sync_fetch_and_add(badp, 1);
			}
		});
	for (auto& t : tasks)
		t.join();
	sim::NoSched ns;
	if (T >= 2)
		sim::setNontrivial();
	double fin = (double)~x;
	if (fin != 10 + plus - minus)
		sim::fail("lost_update", tn, "%s: initial 10, +%g, -%g, final value %g", tn, plus, minus, fin);
	if (bad)
		sim::fail("impossible_value", tn, "%s: an operation returned a value no serial order can produce (%d times)", tn, bad);
}

// Atomic<Array<int>> used as a published value: writers replace it with fresh arrays (x = fresh), readers take a copy of
// the Atomic itself (copy construction) and look at it. Every copy must be one of the published arrays, intact, and every
// published array is destroyed exactly once, after its last reader.
void runAtomicPublish(const Plan& p)
{
	int T = (int)std::max<int64_t>(2, std::min<int64_t>(16, p.get("threads", 2)));
	size_t heap0 = sim::heapLive();
	{
		asl::Atomic<asl::Array<int>> x(asl::Array<int>(3, 7));
		std::vector<std::vector<int>> ops((size_t)T);
		for (auto& o : p.ops)
			if (o.k == "a")
			{
				size_t t = (size_t)(std::abs(o.arg(0)) % T);
				if (ops[t].size() < 24)
					ops[t].push_back((int)(std::abs(o.arg(1)) % 8));
			}
		volatile int bad = 0;
		volatile int* badp = &bad;
		std::vector<Task> tasks((size_t)T);
		for (int t = 0; t < T; t++)
			tasks[(size_t)t].start([&, t]() {
				int n = 0;
				for (int k : ops[(size_t)t])
				{
					if (t % 2 == 0 && k < 4)
					{
						// publish: 2..4 elements, all equal to a tag of this writer
						int tag = 1000 * (t + 1) + n++;
						x = asl::Array<int>(2 + k % 3, tag);
					}
					else
					{
						asl::Atomic<asl::Array<int>> snap(x);
						asl::Array<int> a = ~snap;
						bool ok = a.length() >= 2 && a.length() <= 4;
						for (int i = 1; ok && i < a.length(); i++)
							ok = a[i] == a[0];
						if (!ok)
							__sync_fetch_and_add(badp, 1);
					}
				}
			});
		for (auto& t : tasks)
			t.join();
		sim::NoSched ns;
		sim::setNontrivial();
		if (bad)
			sim::fail("wrong_content", "Atomic<Array<int>>;published", "a copy of the Atomic (copy construction) was not one of the published arrays (%d times)", bad);
	}
	sim::NoSched ns;
	if (sim::heapTracking() && sim::heapLive() != heap0)
		sim::fail("leak", "Atomic<Array<int>>;published;heap", "heap blocks live after the last published array was dropped: %zu (before: %zu)", sim::heapLive(), heap0);
}

void runAtomicArr(const Plan& p)
{
	if (p.get("publish"))
	{
		runAtomicPublish(p);
		return;
	}
	int T = (int)std::max<int64_t>(1, std::min<int64_t>(16, p.get("threads", 2)));
	size_t heap0 = sim::heapLive();
	int total = 0;
	{
		asl::Atomic<asl::Array<int>> x;
		std::vector<std::vector<int>> ops((size_t)T);
		for (auto& o : p.ops)
			if (o.k == "a")
			{
				size_t t = (size_t)(std::abs(o.arg(0)) % T);
				if (ops[t].size() < 48)
				{
					ops[t].push_back((int)(std::abs(o.arg(1)) % 8));
					if (std::abs(o.arg(1)) % 8 != 6)
						total++;
				}
			}
		volatile int bad = 0;
		volatile int* badp = &bad;
		std::vector<Task> tasks((size_t)T);
		for (int t = 0; t < T; t++)
			tasks[(size_t)t].start([&, t]() {
				int mine = 0;
				for (int k : ops[(size_t)t])
				{
					if (k == 6)
					{
						// Array handles share storage, so a consistent snapshot is taken the documented way:
						// under the object's own mutex (Mutex.h, "appendAtomic" example)
						asl::Array<int> snap;
						{
							asl::Lock lk(x.mutex());
							snap = (*x).clone();
						}
						int seen = 0;
						for (int i = 0; i < snap.length(); i++)
							if (snap[i] / 100 == t)
								seen++;
						if (seen != mine || snap.length() > total)
							__sync_fetch_and_add(badp, 1);
					}
					else
					{
						x << (t * 100 + mine); // (element = thread * 100 + ordinal; at most 48 ordinals per thread)
						mine++;
					}
				}
			});
		for (auto& t : tasks)
			t.join();
		sim::NoSched ns;
		if (T >= 2)
			sim::setNontrivial();
		asl::Array<int> fin = ~x;
		if (fin.length() != total)
			sim::fail("lost_update", "Atomic<Array<int>>", "Atomic<Array<int>>: %d appends, final length %d", total, fin.length());
		else
		{
			// every thread's appends present exactly once and in its own order
			std::vector<int> next((size_t)T, 0);
			for (int i = 0; i < fin.length(); i++)
			{
				int t = fin[i] / 100, k = fin[i] % 100;
				if (t < 0 || t >= T || k != next[(size_t)t]++)
				{
					sim::fail("lost_update", "Atomic<Array<int>>", "Atomic<Array<int>>: element %d = %d is duplicated, foreign or out of its thread's order", i, fin[i]);
					break;
				}
			}
		}
		if (bad)
			sim::fail("impossible_value", "Atomic<Array<int>>", "a snapshot missed the thread's own earlier appends or was longer than all appends (%d times)", bad);
	}
	sim::NoSched ns;
	if (sim::heapTracking() && sim::heapLive() != heap0)
		sim::fail("leak", "Atomic<Array<int>>;heap", "heap blocks live after the Atomic<Array> went away: %zu (before %zu)", sim::heapLive(), heap0);
}

void runAtomic(const Plan& p)
{
	switch ((int)(std::abs(p.get("type")) % 3))
	{
	case 0: runAtomicNum<int>(p, "Atomic<int>"); break;
	case 1: runAtomicNum<double>(p, "Atomic<double>"); break;
	default: runAtomicArr(p);
	}
}

// ---------------------------------------------------------------- chains
// A list n1 -> n2 -> ... whose links are handles stored inside the nodes. Every thread owns one handle `head`
// (initially to n1) and walks it with  head = head->next : the right-hand side is a handle that lives inside the
// object the left-hand side may be the last owner of. The node a head ends up on must be alive ("stays alive while
// any handle exists"), every node is destroyed exactly once, and no thread touches a node after its destruction.
// ops: w(thread, kind)  kind 0 advance, 1 read, 2 copy-and-drop a temporary handle, 3 drop the head
template <class H>
struct Chain;
template <>
struct Chain<asl::Shared<SNode>>
{
	typedef asl::Shared<SNode> H;
	static const char* name() { return "Shared;chain"; }
	static H make(int len)
	{
		H head(new SNode(1));
		H cur = head;
		for (int i = 1; i < len; i++)
		{
			H n(new SNode(i + 1));
			cur->next = n;
			cur = n;
		}
		return head;
	}
	static bool null(const H& h) { return !h; }
	static void advance(H& h) { h = h->next; }
	static bool ok(const H& h) { return h->ok(); }
	static void clear(H& h) { h = H(); }
};
template <>
struct Chain<asl::SmartObject>
{
	typedef asl::SmartObject H;
	static const char* name() { return "SmartObject;chain"; }
	static H make(int len)
	{
		asl::CNode head(1);
		asl::CNode cur = head;
		for (int i = 1; i < len; i++)
		{
			asl::CNode n(i + 1);
			cur.ptr()->next = n;
			cur = n;
		}
		return head;
	}
	static bool null(const H& h) { return h._p == 0; }
	static void advance(H& h) { h = ((asl::CNode_*)h._p)->next; }
	static bool ok(const H& h) { return ((asl::CNode_*)h._p)->e.ok(); }
	static void clear(H& h) { h = H((asl::SmartObject_*)0); }
};

template <>
struct Chain<asl::Array<ANode>>
{
	typedef asl::Array<ANode> H;
	static const char* name() { return "Array;chain"; }
	static H make(int len)
	{
		H cur; // the empty array ends the chain
		for (int i = len; i >= 1; i--)
		{
			H a;
			a << ANode(i);
			a[0].kids = cur;
			cur = a;
		}
		return cur;
	}
	static bool null(const H& h) { return h.length() == 0; }
	static void advance(H& h) { h = h[0].kids; }
	static bool ok(const H& h) { return h[0].ok(); }
	static void clear(H& h) { h = H(); }
};
template <>
struct Chain<asl::Map<int, MNode>>
{
	typedef asl::Map<int, MNode> H;
	static const char* name() { return "Map;chain"; }
	static H make(int len)
	{
		H cur;
		for (int i = len; i >= 1; i--)
		{
			H m;
			m[1] = MNode(i);
			m[1].next = cur;
			cur = m;
		}
		return cur;
	}
	static bool null(const H& h) { return h.length() == 0; }
	static void advance(H& h)
	{
		const H& c = h;
		h = c[1].next;
	}
	static bool ok(const H& h) { return h[1].ok(); }
	static void clear(H& h) { h = H(); }
};
template <>
struct Chain<asl::HashMap<int, HNode>>
{
	typedef asl::HashMap<int, HNode> H;
	static const char* name() { return "HashMap;chain"; }
	static H make(int len)
	{
		H cur(8);
		for (int i = len; i >= 1; i--)
		{
			H m(8);
			m[1] = HNode(i);
			m[1].next = cur;
			cur = m;
		}
		return cur;
	}
	static bool null(const H& h) { return h.length() == 0; }
	static void advance(H& h)
	{
		const H& c = h;
		h = c[1].next;
	}
	static bool ok(const H& h) { return h[1].ok(); }
	static void clear(H& h) { h = H(8); }
};

template <class H>
struct Walker
{
	H* head = 0;
	std::vector<int> ops;
	bool badRead = false;
	void run()
	{
		for (int k : ops)
		{
			if (!head || Chain<H>::null(*head))
				break;
			switch (k)
			{
			case 0:
				Chain<H>::advance(*head);
				if (!Chain<H>::null(*head) && !Chain<H>::ok(*head))
					badRead = true;
				break;
			case 1:
				if (!Chain<H>::ok(*head))
					badRead = true;
				break;
			case 2:
			{
				H tmp(*head);
				if (!Chain<H>::ok(tmp))
					badRead = true;
				break;
			}
			default:
				Chain<H>::clear(*head);
				break;
			}
		}
	}
	static void tramp(void* p) { ((Walker*)p)->run(); }
};

void genChain(Prng& r, Plan& p, int tier)
{
	int T = 1 + (int)r.below(3);
	if (tier && r.below(12) == 0)
		T = 4 + (int)r.below(5);
	p.p["threads"] = T;
	p.p["len"] = 2 + r.below(3);
	p.p["main_drops_first"] = r.below(2);
	for (int t = 0; t < T; t++)
	{
		int n = 1 + (int)r.below(4);
		for (int i = 0; i < n; i++)
			p.ops.push_back(op("w", {t, (int64_t)(r.below(2) ? 0 : r.below(4))}));
	}
}

template <class H>
void runChain(const Plan& p)
{
	int T = (int)std::max<int64_t>(1, std::min<int64_t>(8, p.get("threads", 2)));
	int len = (int)std::max<int64_t>(1, std::min<int64_t>(6, p.get("len", 3)));
	{
		// function-local statics of the library (the default element of Map::operator[] const) are built once per
		// process and are not part of this run's accounting
		sim::NoSched ns;
		H tmp = Chain<H>::make(2);
		Chain<H>::ok(tmp);
		Chain<H>::advance(tmp);
	}
	g_ctor = g_dtor = g_live = g_badDestroy = g_badRead = 0;
	sim::enableDestructionRaceOracle(true);
	size_t heap0 = sim::heapLive();
	{
		std::vector<Walker<H>> w((size_t)T);
		H* first = new H(Chain<H>::make(len));
		for (int t = 0; t < T; t++)
			w[(size_t)t].head = new H(*first);
		size_t perThread[8] = {0, 0, 0, 0, 0, 0, 0, 0};
		for (auto& o : p.ops)
			if (o.k == "w")
			{
				size_t t = (size_t)(std::abs(o.arg(0)) % T);
				if (perThread[t]++ < 6)
					w[t].ops.push_back((int)(std::abs(o.arg(1)) % 4));
			}
		sim::event("%s threads=%d len=%d", Chain<H>::name(), T, len);
		bool mainFirst = p.get("main_drops_first") != 0;
		if (mainFirst)
		{
			delete first; // from here on the walkers are the only owners of n1
			first = 0;
		}
		std::vector<sim::TaskId> ids;
		for (int t = 0; t < T; t++)
			ids.push_back(sim::spawn(Walker<H>::tramp, &w[(size_t)t]));
		for (auto id : ids)
			sim::joinTask(id);
		{
			sim::NoSched ns;
			// a walk that can make a head the last owner of the node it leaves
			bool advanced = false;
			for (auto& x : w)
				for (int k : x.ops)
					advanced = advanced || k == 0;
			if (advanced && mainFirst)
				sim::setNontrivial();
			for (auto& x : w)
			{
				if (x.badRead)
					sim::fail("wrong_content", Chain<H>::name(), "a thread found a destroyed or damaged node behind its own live handle");
				if (x.head && !Chain<H>::null(*x.head) && !Chain<H>::ok(*x.head))
					sim::fail("wrong_content", Chain<H>::name(), "after the walk a live handle refers to a destroyed or damaged node");
			}
		}
		for (auto& x : w)
		{
			delete x.head;
			x.head = 0;
		}
		if (first)
			delete first;
	}
	sim::NoSched ns;
	if (g_badDestroy)
		sim::fail("double_destroy", Chain<H>::name(), "%d nodes destroyed twice", g_badDestroy);
	if (g_badRead)
		sim::fail("use_after_destroy", Chain<H>::name(), "%d payload elements copied from after their destruction", g_badRead);
	if (g_live != 0 || g_ctor != g_dtor)
		sim::fail(g_live > 0 ? "leak" : "double_destroy", Chain<H>::name(), "after the last handle was dropped: %d nodes live (constructed %d, destroyed %d)", g_live, g_ctor, g_dtor);
	if (sim::heapTracking() && sim::heapLive() != heap0)
		sim::fail("leak", (std::string(Chain<H>::name()) + ";heap").c_str(), "heap blocks live after the last handle was dropped: %zu (before: %zu)", sim::heapLive(), heap0);
}
void runArrayChain(const Plan& p) { runChain<asl::Array<ANode>>(p); }
void runMapChain(const Plan& p) { runChain<asl::Map<int, MNode>>(p); }
void runHashMapChain(const Plan& p) { runChain<asl::HashMap<int, HNode>>(p); }
void runSharedChain(const Plan& p) { runChain<asl::Shared<SNode>>(p); }
void runSmartChain(const Plan& p) { runChain<asl::SmartObject>(p); }

const char* RULE_CHAIN = "non-trivial: the creator dropped its handle first and at least one thread advanced its head (so some head = head->next is executed by the last owner of the node it leaves); distinct by plan hash x context-switch signature";

const char* REAL = "include/asl/atomic.h, Array.h, Map.h, HashMap.h, Pointer.h (Shared/SharedCore), Shared.h (SmartObject), Socket.h handle layer, Mutex.h (Atomic<T>, Lock, Mutex)";
const char* STUB = "pthread primitives, heap (tracked: freed blocks poisoned and quarantined)";
const char* RULE = "non-trivial: >=2 threads were still unfinished after all had been started (their operations overlapped); distinct by plan hash x context-switch signature";

} // namespace

#define HSCEN(var, nm, fn) REGISTER_SCENARIO(var, "C12", nm, genHandles, fn, 100000, 6000000, {2, 3, 4, 8, 16}, 35, 200000, 60.0, RULE, REAL, STUB, true)
HSCEN(c12_array, "array_handles", runArray);
HSCEN(c12_map, "map_handles", runMap);
HSCEN(c12_dic, "dic_handles", runDic);
HSCEN(c12_hashmap, "hashmap_handles", runHashMap);
HSCEN(c12_hashdic, "hashdic_handles", runHashDic);
HSCEN(c12_shared, "shared_ptr", runShared);
HSCEN(c12_smart, "smartobject", runSmart);
HSCEN(c12_socket, "socket_handles", runSocket);
REGISTER_SCENARIO(c12_array_chain, "C12", "array_chain", genChain, runArrayChain, 50000, 3000000, {2, 3, 4, 8, 16}, 35, 200000, 60.0, RULE_CHAIN, REAL, STUB, true);
REGISTER_SCENARIO(c12_map_chain, "C12", "map_chain", genChain, runMapChain, 50000, 3000000, {2, 3, 4, 8, 16}, 35, 200000, 60.0, RULE_CHAIN, REAL, STUB, true);
REGISTER_SCENARIO(c12_hashmap_chain, "C12", "hashmap_chain", genChain, runHashMapChain, 50000, 3000000, {2, 3, 4, 8, 16}, 35, 200000, 60.0, RULE_CHAIN, REAL, STUB, true);
REGISTER_SCENARIO(c12_shared_chain, "C12", "shared_chain", genChain, runSharedChain, 50000, 3000000, {2, 3, 4, 8, 16}, 35, 200000, 60.0, RULE_CHAIN, REAL, STUB, true);
REGISTER_SCENARIO(c12_smart_chain, "C12", "smart_chain", genChain, runSmartChain, 50000, 3000000, {2, 3, 4, 8, 16}, 35, 200000, 60.0, RULE_CHAIN, REAL, STUB, true);
REGISTER_SCENARIO(c12_count, "C12", "atomic_count", genCount, runCount, 250000, 10000000, {2, 3, 4, 8}, 35, 100000, 60.0, RULE, REAL, STUB, true);
REGISTER_SCENARIO(c12_atomic, "C12", "atomic_T", genAtomic, runAtomic, 250000, 10000000, {2, 3, 4, 8}, 35, 100000, 60.0, RULE, REAL, STUB, true);
