#include "scen/c14_server.inc"
REGISTER_SCENARIO(c14_server_a, "C14", "server_io", genServer, runServer, 30000, 1500000, {1, 2, 4}, 30, 3000000, 300.0, RULE14, REAL14, STUB14, false);
