#include "scen/c11_ws.inc"
} // namespace

REGISTER_SCENARIO(c11_asl, "C11", "ws_asl", genAsl, runAsl, 15000, 600000, {4, 16, 64}, 0, 8000000, 30000.0,
                  "non-trivial: a payload length within +-2 of a header-format boundary (125/126, 65535/65536) or a read fragmented by the stub; distinct by plan hash x context-switch signature", REAL11, STUB11, false);
REGISTER_SCENARIO(c11_framer, "C11", "ws_framer", genFramer, runFramer, 30000, 1500000, {4, 16, 64}, 0, 8000000, 30000.0,
                  "every run (frames built/checked by the independent framer: fragmentation into 1-4 frames, mask keys with zero bytes, pings before messages and between fragments); distinct by plan hash x context-switch signature", REAL11,
                  STUB11, false);
REGISTER_SCENARIO(c11_multi, "C11", "ws_multi", genMulti, runMulti, 8000, 300000, {4, 16, 64}, 0, 3000000, 900.0,
                  "non-trivial: at least one connection left while others stayed (the server's client list shrank in the middle); distinct by plan hash x context-switch signature", REAL11, STUB11, false);
REGISTER_SCENARIO(c11_hostile, "C11", "ws_hostile", genHostileWs, runHostileWs, 30000, 1500000, {4, 16}, 0, 3000000, 900.0, "non-trivial: the frame stream was cut strictly inside; distinct by plan hash x context-switch signature", REAL11, STUB11,
                  false);
