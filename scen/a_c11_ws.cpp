// C11 — WebSocket: messages arrive once, intact and in order, in both roles, against the library itself and
// against an independent RFC 6455 framer; the accept key is the RFC's; hostile frame streams (cut at any
// offset) can close the connection but never cause a memory error or a negative length.
#include "scen/common.h"
#include "scen/ref/sha1_b64.h"
#include "sim/net.h"
#include <algorithm>
#include <asl/WebSocket.h>
#include <asl/HttpServer.h>
#include <asl/Socket.h>
#include <asl/String.h>

using namespace scn;

namespace {

const int PORT = 18011;

std::string msgOf(uint64_t seed, size_t len, bool text)
{
	std::string s(len, '\0');
	uint64_t x = seed * 0x9e3779b97f4a7c15ULL + 99;
	for (size_t i = 0; i < len; i++)
	{
		x = x * 6364136223846793005ULL + 1442695040888963407ULL;
		unsigned char c = (unsigned char)(x >> 56);
		s[i] = text ? (char)(0x20 + c % 95) : (char)c;
	}
	return s;
}

int64_t wsLen(Prng& r, int tier)
{
	int64_t hi = 3000;
	if (r.below(4) == 0)
		hi = 70000;
	if (r.below(tier ? 40 : 400) == 0)
		hi = 4 * 1024 * 1024; // beyond 1 MiB even in the quick tier, rarely (block-wise senders change behaviour there)
	return biased(r, 1, hi, {1, 125, 126, 127, 65535, 65536, 65537});
}

struct M
{
	int dir, text;
	std::string data;
};

std::vector<M> messagesOf(const Plan& p, size_t maxN)
{
	std::vector<M> v;
	for (auto& o : p.ops)
		if (o.k == "msg" && v.size() < maxN)
		{
			M m;
			m.dir = (int)(std::abs(o.arg(0)) & 1);
			m.text = (int)(std::abs(o.arg(1)) & 1);
			size_t len = (size_t)std::max<int64_t>(1, std::min<int64_t>(5000000, o.arg(2)));
			m.data = msgOf((uint64_t)o.arg(3), len, m.text != 0);
			v.push_back(m);
		}
	return v;
}

void applyNetKnobs(Prng& r, Plan& p)
{
	if (r.below(2))
		p.p["knob.net.frag"] = 10 + r.below(90);
	if (r.below(3) == 0)
		p.p["knob.net.short"] = 10 + r.below(80);
	if (r.below(3) == 0)
		p.p["knob.net.lat_us"] = 1 + r.below(50000);
	if (r.below(5) == 0)
		p.p["knob.net.sndbuf"] = 256 << r.below(8);
}

// ================================================================ asl <-> asl
struct EchoSrv : public asl::WebSocketServer
{
	std::vector<M>* msgs = nullptr;
	std::vector<std::string> got;
	volatile int served = 0, done = 0;
	volatile bool sawEnd = false;
	void serve(asl::WebSocket& ws)
	{
		__sync_fetch_and_add(&served, 1);
		bool end = false;
		while (!end)
		{
			if (!ws.wait(30))
				break;
			if (ws.closed())
				break;
			asl::WebSocketMsg m = ws.receive();
			if (m.length() < 0)
				sim::fail("negative_length", "server_receive", "receive() returned a message of negative length");
			if (m.length() == 0)
				continue;
			std::string s((const char*)((asl::ByteArray)m).data(), (size_t)m.length());
			if (s == "\x01" "END")
				end = true;
			else
				got.push_back(s);
		}
		if (end)
			sawEnd = true; // (sticky: with a reused client object a second, message-less session is served by another handler)
		if (end)
		{
			for (auto& m : *msgs)
				if (m.dir == 1)
				{
					if (m.text)
						ws.send(asl::String(m.data.c_str()));
					else
						ws.send(asl::ByteArray((const asl::byte*)m.data.data(), (int)m.data.size()));
				}
			ws.send(asl::String("\x01" "END"));
			// wait until the client closes, so that nothing is lost to an early close
			for (int i = 0; i < 100 && !ws.closed(); i++)
				ws.wait(1);
		}
		__sync_fetch_and_add(&done, 1);
	}
};

void genAsl(Prng& r, Plan& p, int tier)
{
	int n = 1 + (int)r.below(8);
	for (int i = 0; i < n; i++)
		p.ops.push_back(op("msg", {(int64_t)r.below(2), (int64_t)r.below(2), wsLen(r, tier), (int64_t)(r.next() >> 20)}));
	applyNetKnobs(r, p);
	p.p["abrupt"] = r.below(5) == 0; // the client closes right behind its last message instead of waiting for the server's
	p.p["linked"] = r.below(4) == 0; // served through an HttpServer on the same port (HttpServer::link)
	p.p["reuse"] = r.below(4) == 0;  // the client object is on its second session
}

void compareSeq(const char* dirName, const std::vector<M>& msgs, int dir, const std::vector<std::string>& got)
{
	std::vector<const M*> want;
	for (auto& m : msgs)
		if (m.dir == dir)
			want.push_back(&m);
	size_t n = std::min(want.size(), got.size());
	for (size_t i = 0; i < n; i++)
		if (got[i] != want[i]->data)
		{
			size_t d = 0;
			while (d < got[i].size() && d < want[i]->data.size() && got[i][d] == want[i]->data[d])
				d++;
			bool isLater = false;
			for (size_t j = i + 1; j < want.size(); j++)
				if (want[j]->data == got[i])
					isLater = true;
			sim::fail("message_mismatch", isLater ? (std::string(dirName) + ";order").c_str() : (std::string(dirName) + ";content").c_str(),
			          "%s: message %zu of %zu bytes (%s) received as %zu bytes, first difference at offset %zu", dirName, i, want[i]->data.size(), want[i]->text ? "text" : "binary", got[i].size(), d);
			return;
		}
	if (got.size() < want.size())
		sim::fail("message_mismatch", (std::string(dirName) + ";lost").c_str(), "%s: %zu messages sent, %zu received (message %zu of %zu bytes never arrived)", dirName, want.size(), got.size(), got.size(),
		          want[got.size()]->data.size());
	else if (got.size() > want.size())
		sim::fail("message_mismatch", (std::string(dirName) + ";extra").c_str(), "%s: %zu messages sent, %zu received (duplicate or split message)", dirName, want.size(), got.size());
}

void runAsl(const Plan& p)
{
	std::vector<M> msgs = messagesOf(p, 16);
	EchoSrv* srv = new EchoSrv;
	srv->msgs = &msgs;
	// the WebSocket server either listens itself or is linked to an HttpServer that owns the port and hands upgrade requests over
	asl::HttpServer* http = p.get("linked") ? new asl::HttpServer : nullptr;
	if (http)
		http->link(*srv);
	if (!(http ? http->bind(PORT) : srv->bind(PORT)))
	{
		sim::fail("harness", "bind_failed", "bind failed");
		delete http;
		delete srv;
		return;
	}
	if (http)
		http->start(true);
	else
		srv->start(true);
	std::vector<std::string> clientGot;
	bool connected = false, sawEnd = false;
	const bool abrupt = p.get("abrupt") != 0;
	const bool reuse = p.get("reuse") != 0;
	{
		asl::WebSocket ws;
		if (reuse)
		{
			// the same WebSocket object has already been through one session (connect, close) before the one that is judged
			ws.connect("ws://127.0.0.1/chat", PORT);
			ws.close();
		}
		connected = ws.connect("ws://127.0.0.1/chat", PORT);
		if (connected)
		{
			for (auto& m : msgs)
				if (m.dir == 0)
				{
					if (m.text)
						ws.send(asl::String(m.data.c_str()));
					else
						ws.send(asl::ByteArray((const asl::byte*)m.data.data(), (int)m.data.size()));
				}
			ws.send(asl::String("\x01" "END"));
			for (; !abrupt;)
			{
				if (!ws.wait(60) || ws.closed())
					break;
				asl::WebSocketMsg m = ws.receive();
				if (m.length() < 0)
					sim::fail("negative_length", "client_receive", "receive() returned a message of negative length");
				if (m.length() == 0)
					continue;
				std::string s((const char*)((asl::ByteArray)m).data(), (size_t)m.length());
				if (s == "\x01" "END")
				{
					sawEnd = true;
					break;
				}
				clientGot.push_back(s);
			}
			ws.close();
		}
	}
	if (http)
	{
		http->stop(true);
		delete http;
	}
	else
		srv->stop(true);
	std::vector<std::string> serverGot = srv->got;
	int served = srv->served;
	bool serverSawEnd = srv->sawEnd;
	delete srv;
	sim::sleepFor(3.0);
	sim::NoSched ns;
	if (!connected)
	{
		sim::fail("handshake", "asl_client_to_asl_server", "WebSocket::connect to the library's own server failed");
		return;
	}
	if (served != 1 + (reuse ? 1 : 0))
		sim::fail("handshake", "serve_count", "server serve(WebSocket&) ran %d times for %d connections", served, 1 + (reuse ? 1 : 0));
	compareSeq(abrupt ? "client_to_server;close_behind_last_message" : "client_to_server", msgs, 0, serverGot);
	if (abrupt)
	{
		// everything was sent before the close: TCP delivers it ahead of the end of stream
		if (!serverSawEnd)
			sim::fail("message_mismatch", "client_to_server;close_behind_last_message;lost_end", "the client closed right behind its last message; the server never received that message");
		sim::setNontrivial();
		return;
	}
	if (!sawEnd)
		sim::fail("message_mismatch", "server_to_client;lost_end", "the client never received the end marker (connection ended early)");
	compareSeq("server_to_client", msgs, 1, clientGot);
	for (auto& m : msgs)
	{
		size_t n = m.data.size();
		if ((n >= 124 && n <= 128) || (n >= 65534 && n <= 65538))
			sim::setNontrivial();
	}
	if (sim::net::stats().fragReads > 0)
		sim::setNontrivial();
}

// ================================================================ asl <-> independent framer
// ops: msg(dir, text, len, seed)  frag(nframes, keyKind, pingWhere, masked)  attached to the preceding msg (framer side only)
void genFramer(Prng& r, Plan& p, int tier)
{
	p.p["asl_role"] = r.below(2); // 0: asl is the server, 1: asl is the client
	int n = 1 + (int)r.below(6);
	for (int i = 0; i < n; i++)
	{
		p.ops.push_back(op("msg", {(int64_t)r.below(2), (int64_t)r.below(2), wsLen(r, tier), (int64_t)(r.next() >> 20)}));
		// nframes 1..4, key kind, ping position (0 none, 1 before message, 2 between fragments), masked
		p.ops.push_back(op("frag", {(int64_t)(1 + r.below(4)), (int64_t)r.below(6), (int64_t)r.below(3), (int64_t)(r.below(4) != 0), (int64_t)(r.next() >> 32)}));
	}
	applyNetKnobs(r, p);
	p.p["abrupt"] = r.below(5) == 0; // the framer closes the connection right behind its last frame
	p.p["conn_hdr"] = r.below(3);
}

uint32_t keyOf(int kind, uint64_t seed)
{
	switch (kind % 6)
	{
	case 0: return 0;
	case 1: return 0x00ff00ff;
	case 2: return 0xff000000;
	case 3: return 0x000000ff;
	case 4: return 0x12003400;
	default: return (uint32_t)(seed * 2654435761u) | 0x01010101u;
	}
}

struct FragSpec
{
	int nframes = 1, keyKind = 5, ping = 0, masked = 1;
	uint64_t seed = 0;
};

std::string framesFor(const M& m, const FragSpec& fs, bool framerIsClient)
{
	std::string out;
	Prng r(mix64(fs.seed, 17));
	bool masked = framerIsClient ? (fs.masked != 0) : false; // a server never masks; a client "masked or not"
	auto ping = [&](const char* tag) {
		ref::Frame f;
		f.opcode = 9;
		f.payload = tag;
		f.masked = masked;
		f.key = keyOf(fs.keyKind + 1, fs.seed);
		out += ref::encodeFrame(f);
	};
	if (fs.ping == 1)
		ping("p-before");
	int nf = std::max(1, std::min(4, fs.nframes));
	// one frame of a fragmented message may be empty (RFC 6455 5.4 allows it; typical of streaming senders whose
	// last write was a flush): first, middle or final
	Prng r2(mix64(fs.seed, 99));
	int emptyAt = nf >= 2 && r2.below(4) == 0 ? (int)r2.below((uint32_t)nf) : -1;
	int nonEmpty = emptyAt >= 0 ? nf - 1 : nf;
	if ((size_t)nonEmpty > m.data.size())
	{
		nf = (int)m.data.size();
		emptyAt = -1;
		nonEmpty = nf;
	}
	size_t pos = 0;
	int left = nonEmpty; // non-empty frames still to be produced
	for (int i = 0; i < nf; i++)
	{
		size_t remaining = m.data.size() - pos;
		size_t n;
		if (i == emptyAt)
			n = 0;
		else
		{
			left--;
			n = left == 0 ? remaining : 1 + r.below((uint32_t)(remaining - (size_t)left));
		}
		ref::Frame f;
		f.fin = i == nf - 1;
		f.opcode = i == 0 ? (m.text ? 1 : 2) : 0;
		f.payload = m.data.substr(pos, n);
		f.masked = masked;
		f.key = keyOf(fs.keyKind, fs.seed + (uint64_t)i);
		out += ref::encodeFrame(f);
		pos += n;
		if (fs.ping == 2 && i + 1 < nf)
			ping("p-between");
	}
	return out;
}

struct AslSide
{
	std::vector<std::string> got;
	bool sawEnd = false;
	int negative = 0;
	void pump(asl::WebSocket& ws, double timeout)
	{
		for (;;)
		{
			if (!ws.wait(timeout) || ws.closed())
				break;
			asl::WebSocketMsg m = ws.receive();
			if (m.length() < 0)
				negative++;
			if (m.length() <= 0)
				continue;
			std::string s((const char*)((asl::ByteArray)m).data(), (size_t)m.length());
			if (s == "\x01" "END")
			{
				sawEnd = true;
				break;
			}
			got.push_back(s);
		}
	}
	void sendAll(asl::WebSocket& ws, const std::vector<M>& msgs, int dir)
	{
		for (auto& m : msgs)
			if (m.dir == dir)
			{
				if (m.text)
					ws.send(asl::String(m.data.c_str()));
				else
					ws.send(asl::ByteArray((const asl::byte*)m.data.data(), (int)m.data.size()));
			}
		ws.send(asl::String("\x01" "END"));
	}
};

struct FramerSrv : public asl::WebSocketServer
{
	std::vector<M>* msgs = nullptr;
	AslSide side;
	volatile int served = 0;
	void serve(asl::WebSocket& ws)
	{
		__sync_fetch_and_add(&served, 1);
		side.pump(ws, 30);
		if (side.sawEnd)
		{
			side.sendAll(ws, *msgs, 1);
			for (int i = 0; i < 100 && !ws.closed(); i++)
				ws.wait(1);
		}
	}
};

// reads frames the asl side emitted until the END marker; checks framing rules
void deframe(int fd, bool fromClientRole, std::vector<std::string>& out, bool& sawEnd, std::string& problem)
{
	std::string buf, cur;
	size_t pos = 0;
	bool inMsg = false;
	for (;;)
	{
		ref::Frame f;
		int rc = ref::decodeFrame(buf, pos, f);
		if (rc < 0)
		{
			problem = "frame with an absurd length";
			return;
		}
		if (rc == 0)
		{
			char tmp[16384];
			int k = sim::net::rawRecv(fd, tmp, sizeof tmp, 60.0);
			if (k <= 0)
			{
				if (pos < buf.size())
					problem = "connection ended inside a frame";
				return;
			}
			buf.append(tmp, (size_t)k);
			if (pos > (1u << 20))
			{
				buf.erase(0, pos);
				pos = 0;
			}
			continue;
		}
		if (!f.minimalLen && problem.empty())
			problem = "non-minimal payload length encoding";
		if (f.rsv && problem.empty())
			problem = "RSV bits set";
		if (f.masked != fromClientRole && problem.empty())
			problem = fromClientRole ? "client frame without mask" : "server frame with mask";
		if (f.opcode >= 8)
		{
			if (f.opcode == 8)
				return;
			continue; // pong answers to our pings
		}
		if ((f.opcode == 0) != inMsg && problem.empty())
			problem = "continuation/data opcode out of sequence";
		cur += f.payload;
		inMsg = !f.fin;
		if (f.fin)
		{
			if (cur == "\x01" "END")
			{
				sawEnd = true;
				return;
			}
			out.push_back(cur);
			cur.clear();
		}
	}
}

bool readHttpHead(int fd, std::string& head)
{
	while (head.find("\r\n\r\n") == std::string::npos)
	{
		char tmp[2048];
		int k = sim::net::rawRecv(fd, tmp, 1, 30.0); // byte-wise: must not swallow frames that follow the handshake
		if (k <= 0 || head.size() > 8192)
			return false;
		head.append(tmp, (size_t)k);
	}
	return true;
}

std::string headerValue(const std::string& head, const char* name)
{
	size_t p = 0;
	while ((p = head.find("\r\n", p)) != std::string::npos)
	{
		p += 2;
		size_t e = head.find("\r\n", p);
		std::string line = head.substr(p, e - p);
		size_t c = line.find(':');
		if (c != std::string::npos && strcasecmp(line.substr(0, c).c_str(), name) == 0)
		{
			std::string v = line.substr(c + 1);
			while (!v.empty() && v[0] == ' ')
				v.erase(0, 1);
			return v;
		}
	}
	return "";
}

void runFramer(const Plan& p)
{
	std::vector<M> msgs = messagesOf(p, 12);
	std::vector<FragSpec> frags(msgs.size());
	{
		size_t i = 0;
		bool seenMsg = false;
		for (auto& o : p.ops)
		{
			if (o.k == "msg" && i < msgs.size())
			{
				if (seenMsg)
					i++;
				seenMsg = true;
			}
			else if (o.k == "frag" && seenMsg && i < msgs.size())
			{
				frags[i].nframes = (int)o.arg(0, 1);
				frags[i].keyKind = (int)std::abs(o.arg(1));
				frags[i].ping = (int)(std::abs(o.arg(2)) % 3);
				frags[i].masked = (int)(o.arg(3) != 0);
				frags[i].seed = (uint64_t)o.arg(4);
			}
		}
	}
	bool aslIsClient = p.get("asl_role") != 0;
	const bool abrupt = p.get("abrupt") != 0;
	if (abrupt)
	{
		// A framer that closes right behind its last frame must not have asked for anything: the pong that answers a
		// ping would be sent into a closed connection, and TCP then resets it and discards what the asl side has not
		// read yet (the kernel's doing, and the stub's; not a loss the library could prevent)
		for (auto& f : frags)
			f.ping = 0;
	}
	std::vector<std::string> framerGot;
	bool framerSawEnd = false;
	std::string framingProblem, handshakeProblem;
	AslSide aslSide;
	int fragmentedWithPing = 0;
	for (size_t i = 0; i < msgs.size(); i++)
		if (msgs[i].dir == (aslIsClient ? 1 : 0) && frags[i].ping == 2 && frags[i].nframes > 1 && msgs[i].data.size() > 1)
			fragmentedWithPing++;

	if (!aslIsClient)
	{
		// ---- asl server, framer client
		FramerSrv* srv = new FramerSrv;
		srv->msgs = &msgs;
		if (!srv->bind(PORT))
		{
			sim::fail("harness", "bind_failed", "bind failed");
			delete srv;
			return;
		}
		srv->start(true);
		int fd = sim::net::rawConnectTcp(PORT);
		std::string key = ref::base64(msgOf(p.ops.size() * 77 + 5, 16, false));
		// browsers list several tokens in Connection (Firefox: "keep-alive, Upgrade")
		static const char* CONN[] = {"Upgrade", "keep-alive, Upgrade", "Upgrade, keep-alive"};
		std::string req = std::string("GET /chat HTTP/1.1\r\nHost: 127.0.0.1\r\nUpgrade: websocket\r\nConnection: ") + CONN[std::abs(p.get("conn_hdr")) % 3] + "\r\nSec-WebSocket-Key: " + key + "\r\nSec-WebSocket-Version: 13\r\n\r\n";
		sim::net::rawSend(fd, req.data(), req.size());
		std::string head;
		if (!readHttpHead(fd, head) || head.compare(0, 12, "HTTP/1.1 101") != 0)
			handshakeProblem = "no 101 response: " + head.substr(0, 40);
		else if (headerValue(head, "Sec-WebSocket-Accept") != ref::wsAccept(key))
			handshakeProblem = "Sec-WebSocket-Accept is '" + headerValue(head, "Sec-WebSocket-Accept") + "', RFC 6455 prescribes '" + ref::wsAccept(key) + "'";
		if (handshakeProblem.empty())
		{
			std::string stream;
			for (size_t i = 0; i < msgs.size(); i++)
				if (msgs[i].dir == 0)
					stream += framesFor(msgs[i], frags[i], true);
			M endm{0, 1, "\x01" "END"};
			FragSpec ef;
			ef.seed = 3;
			stream += framesFor(endm, ef, true);
			sim::net::rawSend(fd, stream.data(), stream.size());
			if (!abrupt)
				deframe(fd, false, framerGot, framerSawEnd, framingProblem);
		}
		sim::net::rawClose(fd);
		srv->stop(true);
		aslSide = srv->side;
		delete srv;
	}
	else
	{
		// ---- asl client, framer server
		asl::Socket lst;
		if (!lst.bind("127.0.0.1", PORT))
		{
			sim::fail("harness", "bind_failed", "bind failed");
			return;
		}
		lst.listen(5);
		bool connected = false;
		Task client;
		client.start([&]() {
			asl::WebSocket ws;
			connected = ws.connect("ws://127.0.0.1/chat", PORT);
			if (!connected)
				return;
			aslSide.sendAll(ws, msgs, 0);
			aslSide.pump(ws, 60);
			ws.close();
		});
		asl::Socket conn = lst.accept();
		int fd = conn.handle();
		std::string head;
		if (!readHttpHead(fd, head))
			handshakeProblem = "no upgrade request from WebSocket::connect";
		else
		{
			std::string key = headerValue(head, "Sec-WebSocket-Key");
			std::string resp = "HTTP/1.1 101 Switching Protocols\r\nUpgrade: websocket\r\nConnection: Upgrade\r\nSec-WebSocket-Accept: " + ref::wsAccept(key) + "\r\n\r\n";
			sim::net::rawSend(fd, resp.data(), resp.size());
			deframe(fd, true, framerGot, framerSawEnd, framingProblem);
			if (framerSawEnd)
			{
				std::string stream;
				for (size_t i = 0; i < msgs.size(); i++)
					if (msgs[i].dir == 1)
						stream += framesFor(msgs[i], frags[i], false);
				M endm{1, 1, "\x01" "END"};
				FragSpec ef;
				ef.seed = 4;
				stream += framesFor(endm, ef, false);
				sim::net::rawSend(fd, stream.data(), stream.size());
				// wait for the client's close (or, abrupt, close right behind the last frame)
				char tmp[256];
				while (!abrupt && sim::net::rawRecv(fd, tmp, sizeof tmp, 60.0) > 0)
				{
				}
			}
		}
		conn.close();
		client.join();
		lst.close();
		if (!connected && handshakeProblem.empty())
			handshakeProblem = "WebSocket::connect refused a correct RFC 6455 handshake response";
	}
	sim::sleepFor(3.0);
	sim::NoSched ns;
	const char* who = aslIsClient ? "asl_client" : "asl_server";
	if (!handshakeProblem.empty())
	{
		sim::fail("handshake", who, "%s: %s", who, handshakeProblem.c_str());
		return;
	}
	if (!framingProblem.empty())
		sim::fail("framing", (std::string(who) + ";" + framingProblem).c_str(), "frames emitted by the %s: %s", who, framingProblem.c_str());
	if (aslSide.negative)
		sim::fail("negative_length", who, "receive() returned a message of negative length");
	// asl -> framer direction (an asl server answers only after the framer's end marker: nobody listens any more when the framer has gone)
	const bool framerListened = !(abrupt && !aslIsClient);
	if (framerListened)
		compareSeq(aslIsClient ? "asl_client_to_framer" : "asl_server_to_framer", msgs, aslIsClient ? 0 : 1, framerGot);
	if (framerListened && !framerSawEnd && framingProblem.empty())
		sim::fail("message_mismatch", aslIsClient ? "asl_client_to_framer;lost_end" : "asl_server_to_framer;lost_end", "the framer never saw the end marker from the %s", who);
	// framer -> asl direction
	{
		std::string dn = aslIsClient ? "framer_to_asl_client" : "framer_to_asl_server";
		if (fragmentedWithPing)
			dn += ";ping_between_fragments";
		if (abrupt)
			dn += ";close_behind_last_frame";
		compareSeq(dn.c_str(), msgs, aslIsClient ? 1 : 0, aslSide.got);
		if (!aslSide.sawEnd)
			sim::fail("message_mismatch", (dn + ";lost_end").c_str(), "the %s never received the end marker sent by the framer", who);
	}
	sim::setNontrivial();
}

// ================================================================ hostile frame streams
// ops: raw(bytes)  cut(permille)   one connection, asl in either role
void genHostileWs(Prng& r, Plan& p, int)
{
	p.p["asl_role"] = r.below(2);
	p.p["bad_handshake"] = r.below(4) == 0 ? 1 + r.below(6) : 0;
	std::string s;
	int n = 1 + (int)r.below(4);
	for (int i = 0; i < n; i++)
	{
		ref::Frame f;
		f.fin = r.below(4) != 0;
		f.rsv = r.below(4) == 0 ? (int)r.below(8) : 0;
		f.opcode = r.below(3) == 0 ? (int)r.below(16) : (int)r.below(3);
		f.masked = r.below(2);
		f.key = keyOf((int)r.below(6), r.next());
		f.payload = msgOf(r.next(), r.below(300), false);
		std::string enc = ref::encodeFrame(f, (int)r.below(3));
		switch (r.below(8))
		{
		case 0: // absurd 64-bit lengths
		{
			// (lengths that are representable, e.g. 0x7fffffff, are legal frames the peer merely never completes; they are
			// not sent because a 2 GiB buffer makes a run take minutes of wall-clock time without deciding anything)
			static const uint64_t L[] = {0x80000000ULL, 0xffffffffULL, 0x100000000ULL, 0x8000000000000000ULL, 0xffffffffffffffffULL, 0x00000000fffffff0ULL, 0x0000000180000005ULL, 0x7fffffffffffffffULL, 0x00000001ffffff00ULL};
			uint64_t v = L[r.below(sizeof L / sizeof L[0])];
			enc = std::string(1, (char)(0x80 | (f.opcode & 15)));
			enc += (char)((f.masked ? 0x80 : 0) | 127);
			for (int k = 7; k >= 0; k--)
				enc += (char)((v >> (8 * k)) & 255);
			enc += msgOf(r.next(), r.below(64), false);
			break;
		}
		case 1: enc = enc.substr(0, r.below((uint32_t)enc.size() + 1)); break; // truncated
		case 2: enc[r.below((uint32_t)enc.size())] ^= (char)(1 << r.below(8)); break;
		default: break;
		}
		s += enc;
	}
	p.ops.push_back(op("raw", {}, s));
	p.ops.push_back(op("cut", {r.below(3) == 0 ? -1 : (int64_t)r.below(1001)}));
	if (r.below(2))
		p.p["knob.net.frag"] = 10 + r.below(90);
}

struct HostSrv : public asl::WebSocketServer
{
	volatile int negative = 0, received = 0;
	void serve(asl::WebSocket& ws)
	{
		for (int i = 0; i < 64; i++)
		{
			if (!ws.wait(20) || ws.closed())
				break;
			asl::WebSocketMsg m = ws.receive();
			if (m.length() < 0)
				__sync_fetch_and_add(&negative, 1);
			__sync_fetch_and_add(&received, 1);
		}
	}
};

void runHostileWs(const Plan& p)
{
	std::string stream;
	int cut = -1;
	for (auto& o : p.ops)
	{
		if (o.k == "raw")
			stream = o.s;
		else if (o.k == "cut")
			cut = (int)o.arg(0, -1);
	}
	if (stream.size() > 100000)
		stream.resize(100000);
	size_t limit = cut < 0 ? stream.size() : (size_t)((uint64_t)std::min(cut, 1000) * stream.size() / 1000);
	bool aslIsClient = p.get("asl_role") != 0;
	int negative = 0;
	if (!aslIsClient)
	{
		HostSrv* srv = new HostSrv;
		if (!srv->bind(PORT))
		{
			delete srv;
			return;
		}
		srv->start(true);
		int fd = sim::net::rawConnectTcp(PORT);
		std::string req = "GET / HTTP/1.1\r\nHost: x\r\nUpgrade: websocket\r\nConnection: Upgrade\r\nSec-WebSocket-Key: AAAAAAAAAAAAAAAAAAAAAA==\r\n\r\n";
		// a hostile opening handshake (the frames that follow are then sent into whatever the server does with it)
		switch (std::abs(p.get("bad_handshake")) % 8)
		{
		case 1: req = "GET\r\n\r\n"; break;                                                                  // request line without spaces
		case 2: req = "GET / HTTP/1.1\r\nHost x\r\nUpgrade: websocket\r\n\r\n"; break;                        // header line without a colon
		case 3: req = "GET / HTTP/1.1\r\nHost: x\r\n\r\n"; break;                                             // not an upgrade request
		case 4: req = req.substr(0, req.size() / 2); break;                                                     // head never completed
		case 5: req = "GET / HTTP/1.1\r\nUpgrade: websocket\r\nConnection: Upgrade\r\n\r\n"; break;           // no key
		case 6: req = std::string("GET / HTTP/1.1\r\nUpgrade: websocket\r\nConnection: Upgrade\r\nSec-WebSocket-Key: ") + std::string(20000, 'A') + "\r\n\r\n"; break;
		default: break;
		}
		sim::net::rawSend(fd, req.data(), req.size());
		std::string head;
		readHttpHead(fd, head);
		sim::net::rawSend(fd, stream.data(), limit);
		sim::faultFired("peer_close");
		if (cut < 0)
			sim::sleepFor(1.0);
		sim::net::rawClose(fd);
		sim::sleepFor(120.0); // every timeout of the library fits in here
		srv->stop(true);
		negative = srv->negative;
		delete srv;
	}
	else
	{
		asl::Socket lst;
		if (!lst.bind("127.0.0.1", PORT))
			return;
		lst.listen(5);
		Task client;
		int* neg = &negative;
		client.start([neg]() {
			asl::WebSocket ws;
			if (!ws.connect("ws://127.0.0.1/", PORT))
				return;
			for (int i = 0; i < 64; i++)
			{
				if (!ws.wait(20) || ws.closed())
					break;
				asl::WebSocketMsg m = ws.receive();
				if (m.length() < 0)
					(*neg)++;
			}
			ws.close();
		});
		asl::Socket conn = lst.accept();
		int fd = conn.handle();
		std::string head;
		if (readHttpHead(fd, head))
		{
			std::string resp = "HTTP/1.1 101 Switching Protocols\r\nUpgrade: websocket\r\nConnection: Upgrade\r\nSec-WebSocket-Accept: " + ref::wsAccept(headerValue(head, "Sec-WebSocket-Key")) + "\r\n\r\n";
			// a hostile answer to the client's opening handshake
			switch (std::abs(p.get("bad_handshake")) % 8)
			{
			case 1: resp = "HTTP/1.1 400 Bad Request\r\nContent-Length: 0\r\n\r\n"; break;
			case 2: resp = "HTTP/1.1 101 Switching Protocols\r\nConnection: Upgrade\r\n\r\n"; break;        // no Upgrade header
			case 3: resp = resp.substr(0, resp.size() / 2); break;                                          // cut inside the head
			case 4: resp = "HTTP/1.1 101 Switching Protocols\r\nUpgrade websocket\r\n\r\n"; break;          // header line without a colon
			case 5: resp = "\r\n"; break;
			case 6: resp = "HTTP/1.1\r\n\r\n"; break;                                                      // status line without a code
			default: break;
			}
			sim::net::rawSend(fd, resp.data(), resp.size());
			sim::net::rawSend(fd, stream.data(), limit);
			sim::faultFired("peer_close");
			if (cut < 0)
				sim::sleepFor(1.0);
		}
		conn.close();
		client.join();
		lst.close();
	}
	sim::NoSched ns;
	if (negative)
		sim::fail("negative_length", aslIsClient ? "hostile;asl_client" : "hostile;asl_server", "receive() returned a message of negative length %d times", negative);
	if (limit > 0 && limit < stream.size())
		sim::setNontrivial();
}

// ================================================================ several connections on one server
// ops: cli(group, nmsgs, leaves)   group 0 connects in phase 1, group 1 in phase 3; "leaves" = closes in phase 2 (group 0 only)
// The server echoes every message and, at two quiescent moments, broadcasts to clients() under mutex() the way the
// class documentation describes. Every client must get its own echoes once and in order and every broadcast issued
// while it was connected exactly once; clients() must list exactly the connections that are inside serve().
struct MultiSrv : public asl::WebSocketServer
{
	asl::Mutex liveMutex;
	std::vector<asl::WebSocket*> live;
	volatile int entered = 0, exited = 0;
	void serve(asl::WebSocket& ws)
	{
		{
			asl::Lock l(liveMutex);
			live.push_back(&ws);
		}
		__sync_fetch_and_add(&entered, 1);
		for (;;)
		{
			if (!ws.wait(60) || ws.closed())
				break;
			asl::WebSocketMsg m = ws.receive();
			if (m.length() <= 0)
				continue;
			asl::String t = m;
			ws.send(asl::String("E:") + t);
		}
		{
			asl::Lock l(liveMutex);
			for (size_t i = 0; i < live.size(); i++)
				if (live[i] == &ws)
				{
					live.erase(live.begin() + (long)i);
					break;
				}
		}
		__sync_fetch_and_add(&exited, 1);
	}
};

struct MultiCli
{
	int group = 0, nmsgs = 0, leaves = 0, idx = 0;
	volatile int connected = 0, closeNow = 0, done = 0;
	std::vector<std::string> got;
	Task task;
};

void genMulti(Prng& r, Plan& p, int)
{
	int n = 2 + (int)r.below(5);
	for (int i = 0; i < n; i++)
		p.ops.push_back(op("cli", {(int64_t)(i < 2 ? 0 : r.below(2)), (int64_t)r.below(4), (int64_t)r.below(2)}));
	if (r.below(2))
		p.p["knob.net.lat_us"] = 1 + r.below(20000);
	if (r.below(2))
		p.p["knob.net.frag"] = 10 + r.below(80);
}

void checkMembership(MultiSrv& srv, const char* when)
{
	std::vector<uintptr_t> listed, live;
	{
		asl::Lock l(srv.mutex());
		for (int i = 0; i < srv.clients().length(); i++)
			listed.push_back((uintptr_t)srv.clients()[i]);
	}
	{
		asl::Lock l(srv.liveMutex);
		for (auto* w : srv.live)
			live.push_back((uintptr_t)w);
	}
	std::sort(listed.begin(), listed.end());
	std::sort(live.begin(), live.end());
	if (listed != live)
		sim::fail("client_list", when, "%s: clients() lists %zu connections, %zu are inside serve()%s", when, listed.size(), live.size(),
		          listed.size() == live.size() ? " (different objects)" : "");
}

void broadcast(MultiSrv& srv, const char* tag)
{
	asl::Lock l(srv.mutex());
	for (int i = 0; i < srv.clients().length(); i++)
		srv.clients()[i]->send(asl::String(tag));
}

void runMulti(const Plan& p)
{
	std::vector<MultiCli> cl;
	for (auto& o : p.ops)
		if (o.k == "cli" && cl.size() < 8)
		{
			MultiCli c;
			c.group = (int)(std::abs(o.arg(0)) & 1);
			c.nmsgs = (int)(std::abs(o.arg(1)) % 4);
			c.leaves = (int)(std::abs(o.arg(2)) & 1);
			c.idx = (int)cl.size();
			cl.push_back(c);
		}
	MultiSrv* srv = new MultiSrv;
	if (!srv->bind(PORT))
	{
		sim::fail("harness", "bind_failed", "bind failed");
		delete srv;
		return;
	}
	srv->start(true);
	auto body = [&](MultiCli* c) {
		asl::WebSocket ws;
		if (!ws.connect("ws://127.0.0.1/chat", PORT))
		{
			c->done = 1;
			return;
		}
		c->connected = 1;
		for (int j = 0; j < c->nmsgs; j++)
			ws.send(asl::String(0, "c%im%i", c->idx, j));
		while (!c->closeNow)
		{
			if (!ws.wait(0.25))
				continue;
			if (ws.closed())
				break;
			asl::WebSocketMsg m = ws.receive();
			if (m.length() > 0)
				c->got.push_back(std::string((const char*)((asl::ByteArray)m).data(), (size_t)m.length()));
		}
		ws.close();
		c->done = 1;
	};
	auto startGroup = [&](int g) {
		for (auto& c : cl)
			if (c.group == g)
				c.task.start([&body, &c]() { body(&c); });
	};
	auto settle = [&]() { sim::sleepFor(4.0); };
	std::vector<std::vector<std::string>> expectB(cl.size());
	// phase 1: group 0 connects and talks
	startGroup(0);
	settle();
	checkMembership(*srv, "after the first group connected");
	broadcast(*srv, "B1");
	for (auto& c : cl)
		if (c.group == 0 && c.connected)
			expectB[(size_t)c.idx].push_back("B1");
	settle();
	// phase 2: some of them leave (in index order, i.e. older connections first or not, as the plan says)
	int left = 0;
	for (auto& c : cl)
		if (c.group == 0 && c.leaves)
		{
			c.closeNow = 1;
			c.task.join();
			left++;
		}
	settle();
	checkMembership(*srv, "after some connections left");
	// phase 3: group 1 connects
	startGroup(1);
	settle();
	checkMembership(*srv, "after the second group connected");
	broadcast(*srv, "B2");
	for (auto& c : cl)
		if (c.connected && !c.closeNow)
			expectB[(size_t)c.idx].push_back("B2");
	settle();
	for (auto& c : cl)
		if (!c.closeNow)
		{
			c.closeNow = 1;
			if (c.task.id >= 0)
				c.task.join();
		}
	settle();
	checkMembership(*srv, "after all connections left");
	srv->stop(true);
	int entered = srv->entered, exited = srv->exited;
	delete srv;
	sim::NoSched ns;
	int connected = 0;
	for (auto& c : cl)
		connected += c.connected;
	if (entered != connected || exited != entered)
		sim::fail("handshake", "serve_count;multi", "%d clients connected, serve(WebSocket&) entered %d times and returned %d times", connected, entered, exited);
	for (auto& c : cl)
	{
		if (!c.connected)
		{
			sim::fail("handshake", "multi;connect", "client %d could not connect to the library's own server", c.idx);
			continue;
		}
		std::vector<std::string> echoes, bcasts;
		for (auto& g : c.got)
			(g.compare(0, 2, "E:") == 0 ? echoes : bcasts).push_back(g);
		std::vector<std::string> wantE;
		for (int j = 0; j < c.nmsgs; j++)
			wantE.push_back("E:c" + std::to_string(c.idx) + "m" + std::to_string(j));
		if (echoes != wantE)
			sim::fail("message_mismatch", "multi;echo", "client %d of %zu: sent %zu messages, got %zu echoes back (or other content/order)", c.idx, cl.size(), wantE.size(), echoes.size());
		if (bcasts != expectB[(size_t)c.idx])
			sim::fail("message_mismatch", "multi;broadcast", "client %d of %zu: %zu broadcasts were sent to the connections listed by clients() while it was connected, it received %zu", c.idx, cl.size(),
			          expectB[(size_t)c.idx].size(), bcasts.size());
	}
	if (left > 0)
		sim::setNontrivial();
}

const char* REAL11 = "src/WebSocket.cpp (client and server roles, handshake, send, receive), src/SHA1.cpp, src/util.cpp (Base64, Random), src/Socket.cpp, src/SocketServer.cpp, StreamBuffer.h";
const char* STUB11 = "network (TCP stub with fragmentation, short sends, latency, small send buffers, peer close), clock, pthread primitives, /dev/urandom (served from the run's PRNG); independent SHA-1, Base64 and RFC 6455 framer/deframer in scen/ref";

} // namespace

REGISTER_SCENARIO(c11_asl, "C11", "ws_asl", genAsl, runAsl, 15000, 600000, {4, 16, 64}, 0, 8000000, 30000.0,
                  "non-trivial: a payload length within +-2 of a header-format boundary (125/126, 65535/65536) or a read fragmented by the stub; distinct by plan hash x context-switch signature", REAL11, STUB11, false);
REGISTER_SCENARIO(c11_framer, "C11", "ws_framer", genFramer, runFramer, 30000, 1500000, {4, 16, 64}, 0, 8000000, 30000.0,
                  "every run (frames built/checked by the independent framer: fragmentation into 1-4 frames, mask keys with zero bytes, pings before messages and between fragments); distinct by plan hash x context-switch signature", REAL11,
                  STUB11, false);
REGISTER_SCENARIO(c11_multi, "C11", "ws_multi", genMulti, runMulti, 8000, 300000, {4, 16, 64}, 0, 3000000, 900.0,
                  "non-trivial: at least one connection left while others stayed (the server's client list shrank in the middle); distinct by plan hash x context-switch signature", REAL11, STUB11, false);
REGISTER_SCENARIO(c11_hostile, "C11", "ws_hostile", genHostileWs, runHostileWs, 30000, 1500000, {4, 16}, 0, 3000000, 900.0, "non-trivial: the frame stream was cut strictly inside; distinct by plan hash x context-switch signature", REAL11, STUB11,
                  false);
