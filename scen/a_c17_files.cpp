// C17 — File / TextFile / Directory on the simulated disk: whatever was written to a path is what fresh
// objects read back (bytes, text, lines, BOM texts), for every size around the chunk boundaries, across
// histories of write/append/reopen/copy/move, with EXDEV/ENOSPC/EIO/open failures injected into operations.
#include "scen/common.h"
#include "sim/fs.h"
#include <asl/File.h>
#include <asl/TextFile.h>
#include <asl/Directory.h>
#include <asl/String.h>

using namespace scn;

namespace {

std::string bytesOf(uint64_t seed, size_t len)
{
	std::string s(len, '\0');
	uint64_t x = seed * 0x9e3779b97f4a7c15ULL + 7;
	for (size_t i = 0; i < len; i++)
	{
		x = x * 6364136223846793005ULL + 1442695040888963407ULL;
		unsigned sel = (unsigned)((x >> 40) & 15);
		unsigned char c = (unsigned char)(x >> 56);
		if (sel == 0) c = 0;
		else if (sel == 1) c = '\n';
		else if (sel == 2) c = '\r';
		else if (sel == 3) c = 0x1a;
		s[i] = (char)c;
	}
	return s;
}

std::string tokenBytes(Prng& r)
{
	size_t n = r.below(40);
	std::string s;
	for (size_t i = 0; i < n; i++)
		s += (char)(0x21 + r.below(0x5e)) == '%' ? 'p' : (char)(0x21 + r.below(0x5e));
	for (auto& c : s)
		if (c == '%')
			c = 'q';
	return s;
}

// NUL-free text: lines of given lengths with LF / CRLF / lone-CR ends
std::string textOf(uint64_t seed, int nlines, int maxLineLen, int endings, bool finalNewline, int chunk)
{
	Prng r(seed);
	std::string t;
	{
		// BOM-less texts that begin like a byte-order mark (U+FEC0..U+FEFE start with EF BB; lone FF / FE / EF):
		// the BOM probe of text() and lines() has to put every byte it looked at back
		static const char* NEAR[] = {"\xEF\xBB\xA0", "\xEF\xBB\x80", "\xEF\xBB", "\xEF", "\xFF", "\xFE", "\xFF\x20", "\xFE\x41", "\xEF\xBB\xBE"};
		Prng rb(mix64(seed, 4242)); // own stream: older plans keep their remaining bytes
		if (nlines > 0 && rb.below(6) == 0)
			t += NEAR[rb.below(sizeof NEAR / sizeof NEAR[0])];
	}
	for (int i = 0; i < nlines; i++)
	{
		size_t len = (size_t)biased(r, 0, maxLineLen, {0, 1, chunk - 2, chunk - 1, chunk, 2 * (chunk - 1), 3 * (chunk - 1), 254, 255, 256, 509, 510});
		for (size_t k = 0; k < len; k++)
		{
			unsigned char c = (unsigned char)(1 + r.below(255));
			if (c == '\n')
				c = 'n';
			if (c == '\r' && r.below(4))
				c = 'r';
			t += (char)c;
		}
		bool last = i == nlines - 1;
		if (!last || finalNewline)
		{
			int e = endings == 3 ? (int)r.below(3) : endings;
			if (e == 1)
				t += "\r\n";
			else if (e == 2 && !last)
				t += "\r"; // lone CR is not a line end: the line simply goes on
			else
				t += "\n";
		}
	}
	return t;
}

std::vector<std::string> refLines(const std::string& t)
{
	std::vector<std::string> v;
	size_t p = 0;
	for (;;)
	{
		size_t e = t.find('\n', p);
		if (e == std::string::npos)
		{
			v.push_back(t.substr(p));
			break;
		}
		std::string l = t.substr(p, e - p);
		if (!l.empty() && l.back() == '\r')
			l.pop_back();
		v.push_back(l);
		p = e + 1;
	}
	return v;
}

void utf8Append(std::string& o, uint32_t c)
{
	if (c < 0x80) o += (char)c;
	else if (c < 0x800) { o += (char)(0xC0 | (c >> 6)); o += (char)(0x80 | (c & 63)); }
	else if (c < 0x10000) { o += (char)(0xE0 | (c >> 12)); o += (char)(0x80 | ((c >> 6) & 63)); o += (char)(0x80 | (c & 63)); }
	else { o += (char)(0xF0 | (c >> 18)); o += (char)(0x80 | ((c >> 12) & 63)); o += (char)(0x80 | ((c >> 6) & 63)); o += (char)(0x80 | (c & 63)); }
}

std::vector<uint32_t> scalarsOf(uint64_t seed, int n, bool bmpOnly)
{
	Prng r(seed);
	std::vector<uint32_t> v;
	for (int i = 0; i < n; i++)
	{
		uint32_t c;
		switch (r.below(6))
		{
		case 0: c = 0x20 + r.below(0x5f); break;
		case 1: c = 0x80 + r.below(0x780); break;
		case 2: c = 0x800 + r.below(0xD800 - 0x800); break;
		case 3: c = 0xE000 + r.below(0x2000); break;
		case 4: c = bmpOnly ? 0x4E00 + r.below(0x1000) : 0x10000 + r.below(0x100000); break;
		default: c = r.below(3) == 0 ? '\n' : (uint32_t)('a' + r.below(26)); break;
		}
		if (c == 0 || c == '\r' || c == 0xFEFF || c == 0xFFFE)
			c = 'x'; // fence: NUL-free, no CR (the UTF-16 reader folds CRLF, the UTF-8 one does not), no stray BOMs
		v.push_back(c);
	}
	return v;
}

const char* PATHS[] = {"/sim/d/p0", "/sim/d/p1.txt", "/sim/d/sub/p2.bin", "/sim/e/p3"};
const int NPATH = 4;

// ops: put(path,len,seed) wr(path,mode,nchunks,len,seed,flush) stream(path,seed) tput(path,nlines,maxlen,endings,finalnl,seed)
//      tapp(path,nlines,maxlen,endings,seed,reuse) tprintf(path,n,seed) copy(src,dst,todir) move(src,dst,exdev) rm(path)
//      bom(path,enc,n,seed,bmp)  fault(kind,k) attaches to the next op
void genFiles(Prng& r, Plan& p, int tier)
{
	int chunk = r.below(2) ? 255 : (int)biased(r, 2, 300, {2, 3, 8, 255, 256});
	p.p["knob.textfile.line_chunk"] = chunk;
	p.p["faulty"] = r.below(4) == 0;
	int n = 1 + (int)r.below(7);
	int64_t big = tier && r.below(30) == 0 ? 16 * 1024 * 1024 : r.below(60) == 0 ? 2500000 : 200000; // (a few runs of the quick tier go beyond 1 and 2 MiB too: block sizes other than the present 64 KiB)
	for (int i = 0; i < n; i++)
	{
		int path = (int)r.below(NPATH);
		int64_t len = r.below(5) == 0 ? biased(r, 0, big, {0, 1, 65535, 65536, 65537, 131072, 1048576, 2097152}) : biased(r, 0, 3000, {0, 1, 2, 3, 254, 255, 256, 509, 510, 511, 1020});
		if (p.get("faulty") && r.below(3) == 0)
			p.ops.push_back(op("fault", {(int64_t)r.below(4), (int64_t)r.below(3000)}));
		switch (r.below(14))
		{
		case 0: case 1: p.ops.push_back(op("put", {path, len, (int64_t)(r.next() >> 20)})); break;
		case 2: p.ops.push_back(op("wr", {path, (int64_t)r.below(2), (int64_t)(1 + r.below(4)), len, (int64_t)(r.next() >> 20), (int64_t)r.below(2)})); break;
		case 3: p.ops.push_back(op("stream", {path, (int64_t)(r.next() >> 20)})); break;
		case 4: case 5: p.ops.push_back(op("tput", {path, (int64_t)(1 + r.below(6)), (int64_t)(r.below(4) == 0 ? 2000 : 600), (int64_t)r.below(4), (int64_t)r.below(2), (int64_t)(r.next() >> 20)})); break;
		case 6: p.ops.push_back(op("tapp", {path, (int64_t)(1 + r.below(4)), (int64_t)(r.below(4) == 0 ? 3000 : 300), (int64_t)r.below(4), (int64_t)(r.next() >> 20), (int64_t)r.below(8)})); break; // last: 1 long-lived appender, 2 reset by assignment, 4 mixed with one-shot appenders
		case 7: p.ops.push_back(op("tprintf", {path, (int64_t)(1 + r.below(5)), (int64_t)(r.next() >> 20)})); break;
		case 8: p.ops.push_back(op("copy", {path, (int64_t)r.below(NPATH), (int64_t)r.below(4)})); break;
		case 9: p.ops.push_back(op("move", {path, (int64_t)r.below(NPATH), (int64_t)r.below(4)})); break;
		case 12: case 13: p.ops.push_back(op("same", {path, (int64_t)r.below(4), len, (int64_t)(r.next() >> 20)})); break;
		case 10: p.ops.push_back(op("bom", {path, (int64_t)r.below(3), (int64_t)biased(r, 0, 400, {0, 1, 2}), (int64_t)(r.next() >> 20), (int64_t)r.below(2)})); break;
		default: p.ops.push_back(op("rm", {path})); break;
		}
	}
}

struct Model
{
	std::map<std::string, std::string> files;   // path -> bytes
	std::map<std::string, std::string> bomText; // path -> expected UTF-8 text for BOM files
};

asl::ByteArray BA(const std::string& s) { return asl::ByteArray((const asl::byte*)s.data(), (int)s.size()); }
std::string STR(const asl::ByteArray& a) { return std::string((const char*)a.data(), (size_t)a.length()); }

bool nulFree(const std::string& s) { return s.find('\0') == std::string::npos; }

size_t diffAt(const std::string& a, const std::string& b)
{
	size_t n = std::min(a.size(), b.size());
	for (size_t i = 0; i < n; i++)
		if (a[i] != b[i])
			return i;
	return n;
}

// read-back probes through fresh objects
void probe(const Model& m, const std::string& path, const char* after, int chunk, bool eioArmed)
{
	auto it = m.files.find(path);
	bool exists = it != m.files.end();
	{
		std::string disk;
		bool onDisk = sim::fs::get(path, disk);
		if (onDisk != exists || (exists && disk != it->second))
		{
			sim::fail("disk_mismatch", after, "after %s: the bytes on the simulated disk for %s differ from the bytes written (disk %zu bytes, model %s%zu bytes, first difference at %zu)", after, path.c_str(), disk.size(),
			          exists ? "" : "absent/", exists ? it->second.size() : 0, exists ? diffAt(disk, it->second) : 0);
			return;
		}
	}
	if (!exists)
	{
		if (asl::File(path.c_str()).exists())
			sim::fail("readback_mismatch", "exists_after_remove", "after %s: File(%s).exists() is true for a removed file", after, path.c_str());
		return;
	}
	const std::string& want = it->second;
	char key[96];
	auto mismatch = [&](const char* api, const std::string& got) {
		snprintf(key, sizeof key, "%s;%s", api, after);
		sim::fail("readback_mismatch", key, "after %s: %s of %s returned %zu bytes, %zu were written; first difference at offset %zu", after, api, path.c_str(), got.size(), want.size(), diffAt(got, want));
	};
	auto prefixOnly = [&](const char* api, const std::string& got) {
		if (got.size() > want.size() || want.compare(0, got.size(), got) != 0)
		{
			snprintf(key, sizeof key, "%s;%s;under_eio", api, after);
			sim::fail("readback_mismatch", key, "after %s with a read error injected: %s returned bytes that are not a prefix of the file", after, api);
		}
	};
	if (!eioArmed && asl::File(path.c_str()).size() != (asl::Long)want.size())
		sim::fail("readback_mismatch", (std::string("size;") + after).c_str(), "after %s: size() of %s is %lld, %zu bytes were written", after, path.c_str(), (long long)asl::File(path.c_str()).size(), want.size());
	{
		std::string got = STR(asl::File(path.c_str()).content());
		if (eioArmed) prefixOnly("content", got); else if (got != want) mismatch("content", got);
	}
	if (eioArmed)
		return;
	{
		int k = (int)std::min<size_t>(want.size(), want.size() / 2 + 1);
		std::string got = STR(asl::File(path.c_str()).firstBytes(k));
		if (got != want.substr(0, (size_t)k))
			mismatch("firstBytes", got);
	}
	{
		asl::File f(path.c_str(), asl::File::READ);
		std::string got;
		char buf[700];
		int n;
		while (f && (n = f.read(buf, sizeof buf)) > 0)
			got.append(buf, (size_t)n);
		if (got != want)
			mismatch("read", got);
	}
	auto bt = m.bomText.find(path);
	if (bt != m.bomText.end())
	{
		asl::String t = asl::TextFile(path.c_str()).text();
		std::string got(*t, (size_t)t.length());
		if (got != bt->second)
		{
			snprintf(key, sizeof key, "bom_text;%s", after);
			sim::fail("readback_mismatch", key, "text() of the BOM file %s: %zu bytes of UTF-8 expected, %zu returned, first difference at %zu", path.c_str(), bt->second.size(), got.size(), diffAt(got, bt->second));
		}
		return;
	}
	if (!nulFree(want) || want.size() > 400000)
		return;
	bool bomLike = want.size() >= 2 && (((unsigned char)want[0] == 0xff && (unsigned char)want[1] == 0xfe) || ((unsigned char)want[0] == 0xfe && (unsigned char)want[1] == 0xff) ||
	                                    (want.size() >= 3 && (unsigned char)want[0] == 0xef && (unsigned char)want[1] == 0xbb && (unsigned char)want[2] == 0xbf));
	if (!bomLike)
	{
		asl::String t = asl::TextFile(path.c_str()).text();
		std::string got(*t, (size_t)t.length());
		if (got != want)
			mismatch("text", got);
		if (t.length() != (int)strlen(*t))
			sim::fail("readback_mismatch", "text;length_vs_nul", "text(): length() %d but the terminating NUL is at %zu", t.length(), strlen(*t));
	}
	if (bomLike)
		return;
	std::vector<std::string> ref = refLines(want);
	{
		asl::Array<asl::String> ls = asl::TextFile(path.c_str()).lines();
		bool ok = ls.length() == (int)ref.size();
		size_t bad = 0;
		for (size_t i = 0; ok && i < ref.size(); i++)
			if (std::string(*ls[(int)i], (size_t)ls[(int)i].length()) != ref[i])
			{
				ok = false;
				bad = i;
			}
		if (!ok)
		{
			snprintf(key, sizeof key, "lines;%s", after);
			size_t blen = bad < ref.size() ? ref[bad].size() : 0;
			sim::fail("readback_mismatch", key, "lines() of %s: %zu lines expected, %d returned; first differing line %zu (expected length %zu, line chunk %d)", path.c_str(), ref.size(), ls.length(), bad, blen, chunk);
		}
	}
	{
		asl::TextFile f(path.c_str(), asl::File::READ);
		std::vector<std::string> got;
		asl::String s;
		int guard = 0;
		while (f && guard++ < 100000)
		{
			bool more = f.readLine(s);
			if (!more && s.length() == 0 && f.end() && !(got.size() + 1 == ref.size() && ref.back().empty()))
				break;
			got.push_back(std::string(*s, (size_t)s.length()));
			if (!more)
				break;
		}
		// readLine() returns false on the last (unterminated or empty) piece; the sequence must still be the reference split,
		// possibly without the final empty piece
		std::vector<std::string> r2 = ref;
		if (got.size() + 1 == r2.size() && r2.back().empty())
			r2.pop_back();
		if (got != r2)
		{
			snprintf(key, sizeof key, "readLine;%s", after);
			sim::fail("readback_mismatch", key, "readLine() loop over %s: %zu lines expected, %zu returned (line chunk %d)", path.c_str(), r2.size(), got.size(), chunk);
		}
	}
}

void runFiles(const Plan& p)
{
	Model m;
	sim::fs::mkdirs("/sim/d/sub");
	sim::fs::mkdirs("/sim/e");
	int chunk = (int)std::max<int64_t>(2, std::min<int64_t>(100000, p.get("knob.textfile.line_chunk", 255)));
	bool faulty = p.get("faulty") != 0;
	int pendingFault = -1;
	long pendingK = 0;
	bool nontrivial = false;
	std::map<std::string, int> writes;
	for (auto& o : p.ops)
	{
		if (o.k == "fault")
		{
			if (faulty)
			{
				pendingFault = (int)(std::abs(o.arg(0)) % 4);
				pendingK = (long)std::max<int64_t>(0, std::min<int64_t>(100000, o.arg(1)));
			}
			continue;
		}
		std::string path = PATHS[std::abs(o.arg(0)) % NPATH];
		bool armed = false, eio = false;
		auto arm = [&]() {
			if (pendingFault < 0)
				return;
			switch (pendingFault)
			{
			case 0: sim::fs::arm(sim::fs::F_ENOSPC, pendingK); break;
			case 1: sim::fs::arm(sim::fs::F_OPEN_FAIL, 0, 13); break;
			case 2: sim::fs::arm(sim::fs::F_EIO, pendingK); eio = true; break;
			default: sim::fs::arm(sim::fs::F_RENAME_FAIL); break;
			}
			armed = true;
			pendingFault = -1;
		};
		// after a write-side fault the model follows the disk, provided the disk holds a prefix-consistent state
		auto settle = [&](const std::string& pth, const std::string& intended, const std::string& old, bool hadOld, bool appendMode, bool reportedOk) {
			bool fired = sim::fs::fired();
			sim::fs::disarm();
			std::string disk;
			bool onDisk = sim::fs::get(pth, disk);
			if (!armed || !fired)
			{
				m.files[pth] = intended;
				return;
			}
			nontrivial = true;
			std::string base = appendMode && hadOld ? old : std::string();
			bool prefixOk = !onDisk || (disk.size() <= intended.size() && intended.compare(0, disk.size(), disk) == 0 && disk.size() >= base.size()) || (hadOld && disk == old);
			if (!prefixOk)
				sim::fail("fault_consistency", o.k.c_str(), "%s with an injected disk fault left %zu bytes on disk that are neither the old content nor a prefix of the new content", o.k.c_str(), disk.size());
			(void)reportedOk; // with stdio buffering an ENOSPC surfaces at close(); the statement says nothing about that
			if (onDisk)
				m.files[pth] = disk;
			else
				m.files.erase(pth);
			m.bomText.erase(pth);
		};
		bool hadOld = m.files.count(path) > 0;
		std::string old = hadOld ? m.files[path] : std::string();
		sim::event("%s %s", o.k.c_str(), path.c_str());
		if (o.k == "put")
		{
			std::string data = bytesOf((uint64_t)o.arg(2), (size_t)std::max<int64_t>(0, std::min<int64_t>(20000000, o.arg(1))));
			arm();
			bool ok = asl::File(path.c_str()).put(BA(data));
			m.bomText.erase(path);
			settle(path, data, old, hadOld, false, ok);
			if (!armed && !ok)
				sim::fail("write_failed", "put", "File::put returned false without any fault");
		}
		else if (o.k == "wr")
		{
			bool append = (o.arg(1) & 1) != 0;
			int nch = (int)std::max<int64_t>(1, std::min<int64_t>(6, o.arg(2)));
			std::string data = bytesOf((uint64_t)o.arg(4), (size_t)std::max<int64_t>(0, std::min<int64_t>(20000000, o.arg(3))));
			arm();
			{
				asl::File f(path.c_str(), append ? asl::File::APPEND : asl::File::WRITE);
				if (f)
				{
					size_t pos = 0;
					for (int c = 0; c < nch; c++)
					{
						size_t n = c == nch - 1 ? data.size() - pos : (data.size() - pos) / 2;
						f.write(data.data() + pos, (int)n);
						pos += n;
						if (o.arg(5) && c == 0)
							f.flush();
					}
				}
			}
			m.bomText.erase(path);
			settle(path, (append && hadOld ? old : std::string()) + data, old, hadOld, append, false);
		}
		else if (o.k == "stream")
		{
			Prng r((uint64_t)o.arg(1));
			std::string a = bytesOf(r.next(), r.below(600)), b = tokenBytes(r), c = tokenBytes(r);
			arm();
			{
				asl::File f(path.c_str(), asl::File::WRITE);
				if (f)
					f << BA(a) << b.c_str() << asl::String(c.c_str());
			}
			m.bomText.erase(path);
			settle(path, a + b + c, old, hadOld, false, false);
		}
		else if (o.k == "same")
		{
			// the same File object is asked before and after it rewrites the file ("all sequences of write/append/reopen
			// operations on one path"); "written" = after close()
			int how = (int)(std::abs(o.arg(1)) % 4);
			std::string data = bytesOf((uint64_t)o.arg(3), (size_t)std::max<int64_t>(0, std::min<int64_t>(300000, o.arg(2))));
			const std::string header = "HDR:v1;";
			std::string expect = how == 1 ? old + data : how == 3 ? header + data : data;
			asl::File f(path.c_str());
			asl::Long s0 = f.size();
			std::string c0 = hadOld ? STR(f.content()) : std::string();
			f.close();
			if (hadOld && (s0 != (asl::Long)old.size() || c0 != old))
				sim::fail("readback_mismatch", "same_object;before", "a long-lived File object returned size %lld / %zu content bytes for a file of %zu bytes", (long long)s0, c0.size(), old.size());
			bool ok;
			if (how == 0)
				ok = f.put(BA(data));
			else if (how == 3)
			{
				// a small header through the stream operator (it stays in the object's buffer), then the payload with put() on
				// the same open object: the file holds them in that order
				ok = f.open(asl::File::WRITE);
				if (ok)
				{
					f << asl::String(header.c_str());
					ok = f.put(BA(data));
				}
			}
			else
			{
				ok = f.open(how == 1 ? asl::File::APPEND : asl::File::WRITE);
				if (ok)
				{
					// a size-limited logger style history: write, flush, look at the size while still open, write more
					size_t half = data.size() / 2;
					ok = f.write(data.data(), (int)half) == (int)half;
					f.flush();
					if (o.arg(3) & 1)
					{
						(void)f.size();
						(void)f.exists();
					}
					ok = ok && f.write(data.data() + half, (int)(data.size() - half)) == (int)(data.size() - half);
				}
			}
			f.close();
			m.files[path] = expect;
			m.bomText.erase(path);
			if (!ok)
				sim::fail("write_failed", "same_object", "write through a long-lived File object failed without any fault");
			asl::Long s1 = f.size();
			std::string c1 = STR(f.content());
			f.close();
			if (s1 != (asl::Long)expect.size())
				sim::fail("readback_mismatch", "same_object;size", "the File object that wrote %zu bytes (file had %zu before) reports size() %lld after close()", expect.size(), old.size(), (long long)s1);
			else if (c1 != expect)
				sim::fail("readback_mismatch", "same_object;content", "the File object that wrote the file returns %zu content bytes after close(), %zu were written", c1.size(), expect.size());
			if (nulFree(expect) && expect.size() < 100000)
			{
				asl::TextFile t(path.c_str());
				asl::String t0 = t.text();
				t.close();
				t.append("tail");
				t.close();
				asl::String t1 = t.text();
				m.files[path] = expect + "tail";
				if (std::string(*t1, (size_t)t1.length()) != expect + "tail" && !(expect.size() >= 2 && ((unsigned char)expect[0] >= 0xef)))
					sim::fail("readback_mismatch", "same_object;text_after_append", "a TextFile object that appended 4 bytes returns %d bytes of text afterwards, the file has %zu", t1.length(), expect.size() + 4);
			}
			nontrivial = true;
		}
		else if (o.k == "tput")
		{
			std::string t = textOf((uint64_t)o.arg(5), (int)std::max<int64_t>(1, std::min<int64_t>(40, o.arg(1))), (int)std::max<int64_t>(0, std::min<int64_t>(5000, o.arg(2))), (int)(std::abs(o.arg(3)) % 4), o.arg(4) != 0, chunk);
			arm();
			bool ok = asl::TextFile(path.c_str()).put(asl::String(t.c_str()));
			m.bomText.erase(path);
			settle(path, t, old, hadOld, false, ok);
			for (auto& l : refLines(t))
				if (l.size() + 1 >= (size_t)chunk - 1)
					nontrivial = true;
		}
		else if (o.k == "tapp")
		{
			// every append is its own step (a failed open or a full disk affects that append only)
			int n = (int)std::max<int64_t>(1, std::min<int64_t>(6, o.arg(1)));
			bool reuse = (o.arg(5) & 1) != 0;
			arm();
			asl::TextFile* shared = reuse ? new asl::TextFile(path.c_str()) : nullptr;
			for (int k = 0; k < n; k++)
			{
				std::string t = textOf((uint64_t)o.arg(4) + (uint64_t)k, 1, (int)std::max<int64_t>(0, std::min<int64_t>(2000, o.arg(2))), (int)(std::abs(o.arg(3)) % 4), true, chunk);
				bool had = m.files.count(path) > 0;
				std::string cur = had ? m.files[path] : std::string();
				if (shared && (k % 2 == 0 || !(o.arg(5) & 4)))
				{
					shared->append(asl::String(t.c_str()));
					shared->flush(); // "written" means after close(), flush() or destruction of the writing object
				}
				else // one-shot appender (also in between the appends of the long-lived one: two writers in append mode on one path)
					asl::TextFile(path.c_str()).append(asl::String(t.c_str()));
				settle(path, cur + t, cur, had, true, false);
				armed = false;
			}
			if (shared && (o.arg(5) & 2) && !faulty)
			{
				// one more append that stays in the object's buffer, then the object is reset by assignment:
				// what it had written must be in the file (assignment closes the stream it held)
				std::string t = textOf((uint64_t)o.arg(4) + 77, 1, 40, 0, true, chunk);
				bool had = m.files.count(path) > 0;
				std::string cur = had ? m.files[path] : std::string();
				bool wasOpen = shared->append(asl::String(t.c_str()));
				*shared = asl::TextFile();
				if (wasOpen)
					settle(path, cur + t, cur, had, true, false);
			}
			delete shared;
			m.bomText.erase(path);
			if (hadOld)
				nontrivial = true;
		}
		else if (o.k == "tprintf")
		{
			Prng r((uint64_t)o.arg(2));
			int n = (int)std::max<int64_t>(1, std::min<int64_t>(8, o.arg(1)));
			std::string all;
			arm();
			{
				asl::TextFile f(path.c_str(), asl::File::WRITE);
				for (int k = 0; k < n && f; k++)
				{
					std::string w = tokenBytes(r);
					int v = (int)r.range(-100000, 100000);
					f.printf("%s=%i;%.3f\n", w.c_str(), v, v / 8.0);
					char buf[400];
					snprintf(buf, sizeof buf, "%s=%i;%.3f\n", w.c_str(), v, v / 8.0);
					all += buf;
				}
			}
			m.bomText.erase(path);
			settle(path, all, old, hadOld, false, false);
		}
		else if (o.k == "copy" || o.k == "move")
		{
			std::string dst = PATHS[std::abs(o.arg(1)) % NPATH];
			if (dst == path || !hadOld)
				continue;
			bool exdev = o.k == "move" && (o.arg(2) & 1);
			bool toDir = o.k == "copy" && (o.arg(2) & 1);
			std::string target = dst;
			if (toDir)
			{
				target = "/sim/e";
				dst = std::string("/sim/e/") + path.substr(path.rfind('/') + 1);
				if (dst == path)
					continue;
			}
			bool dstHad = m.files.count(dst) > 0;
			std::string dstOld = dstHad ? m.files[dst] : std::string();
			if (exdev)
			{
				sim::fs::arm(sim::fs::F_RENAME_EXDEV);
				armed = false;
				pendingFault = -1;
			}
			else
				arm();
			// through the Directory functions or through the File object's own copy()/move() (bit 1 of the last argument)
			bool viaFile = (o.arg(2) & 2) != 0;
			bool ok = o.k == "copy" ? (viaFile ? asl::File(path.c_str()).copy(target.c_str()) : asl::Directory::copy(path.c_str(), target.c_str()))
			                        : (viaFile ? asl::File(path.c_str()).move(target.c_str()) : asl::Directory::move(path.c_str(), target.c_str()));
			bool fired = sim::fs::fired();
			sim::fs::disarm();
			(void)ok;
			if (exdev && fired)
			{
				sim::probe("move_exdev_fallback");
				nontrivial = true;
			}
			if (armed && fired)
			{
				// faulted copy/move: follow the disk, but the source may only disappear if the destination is complete
				std::string d, s2;
				bool dOn = sim::fs::get(dst, d), sOn = sim::fs::get(path, s2);
				if (dOn && !(d.size() <= old.size() && old.compare(0, d.size(), d) == 0) && !(dstHad && d == dstOld))
					sim::fail("fault_consistency", o.k.c_str(), "%s under an injected fault produced a destination that is not a prefix of the source", o.k.c_str());
				if (!sOn && !(dOn && d == old))
					sim::fail("fault_consistency", (o.k + ";data_lost").c_str(), "%s under an injected fault removed the source without a complete destination", o.k.c_str());
				if (dOn) m.files[dst] = d; else m.files.erase(dst);
				if (sOn) m.files[path] = s2; else m.files.erase(path);
				m.bomText.erase(dst);
				nontrivial = true;
			}
			else
			{
				m.files[dst] = old;
				if (m.bomText.count(path))
					m.bomText[dst] = m.bomText[path];
				else
					m.bomText.erase(dst);
				if (o.k == "move")
				{
					m.files.erase(path);
					m.bomText.erase(path);
				}
			}
			probe(m, dst, o.k == "copy" ? "copy" : (exdev ? "move_exdev" : "move"), chunk, false);
			probe(m, path, o.k == "copy" ? "copy_src" : "move_src", chunk, false);
			continue;
		}
		else if (o.k == "rm")
		{
			if (!hadOld)
				continue;
			bool ok = asl::File(path.c_str()).remove();
			if (!ok)
				sim::fail("write_failed", "remove", "File::remove returned false for an existing file");
			m.files.erase(path);
			m.bomText.erase(path);
		}
		else if (o.k == "bom")
		{
			int enc = (int)(std::abs(o.arg(1)) % 3);
			std::vector<uint32_t> sc = scalarsOf((uint64_t)o.arg(3), (int)std::max<int64_t>(0, std::min<int64_t>(2000, o.arg(2))), (o.arg(4) & 1) != 0);
			std::string raw, utf8;
			for (uint32_t c : sc)
				utf8Append(utf8, c);
			if (enc == 0)
			{
				raw = "\xef\xbb\xbf" + utf8;
			}
			else
			{
				raw = enc == 1 ? "\xff\xfe" : "\xfe\xff";
				auto put16 = [&](uint32_t u) {
					if (enc == 1) { raw += (char)(u & 255); raw += (char)(u >> 8); }
					else { raw += (char)(u >> 8); raw += (char)(u & 255); }
				};
				for (uint32_t c : sc)
				{
					if (c < 0x10000)
						put16(c);
					else
					{
						uint32_t v = c - 0x10000;
						put16(0xD800 + (v >> 10));
						put16(0xDC00 + (v & 0x3ff));
					}
				}
			}
			sim::fs::put(path, raw); // written byte-wise by the harness, as a foreign program would
			m.files[path] = raw;
			m.bomText[path] = utf8;
			char k2[32];
			snprintf(k2, sizeof k2, "bom_%s", enc == 0 ? "utf8" : enc == 1 ? "utf16le" : "utf16be");
			probe(m, path, k2, chunk, false);
			nontrivial = true;
			continue;
		}
		else
			continue;
		if (++writes[path] >= 2)
			nontrivial = true;
		if (m.files.count(path) && (m.files[path].size() % 65536 <= 1 || m.files[path].size() % 65536 == 65535))
			nontrivial = true;
		if (eio)
		{
			sim::fs::arm(sim::fs::F_EIO, pendingK);
			probe(m, path, o.k.c_str(), chunk, true);
			if (sim::fs::fired())
				nontrivial = true;
			sim::fs::disarm();
		}
		probe(m, path, o.k.c_str(), chunk, false);
	}
	// final sweep over every path
	for (int i = 0; i < NPATH; i++)
		probe(m, PATHS[i], "end", chunk, false);
	if (nontrivial)
		sim::setNontrivial();
}

// ================================================================ several threads copying their own files
// ops: cp(thread, size, seed, rounds, how)   Every thread copies (and moves back) its own file; the disk transfers of the
// threads interleave block by block. Each destination must equal its own source byte for byte.
void genFilesConc(Prng& r, Plan& p, int tier)
{
	int T = 2 + (int)r.below(2);
	for (int t = 0; t < T; t++)
		p.ops.push_back(op("cp", {t, (int64_t)biased(r, 1, tier ? 600000 : 200000, {65535, 65536, 65537, 131072, 140000}), (int64_t)(r.next() >> 20), (int64_t)(1 + r.below(3)), (int64_t)r.below(4)}));
}

void runFilesConc(const Plan& p)
{
	sim::fs::mkdirs("/sim/c");
	struct W
	{
		std::string src, dst, data;
		int rounds = 1, how = 0, bad = 0;
		size_t badAt = 0, gotSize = 0;
		Task task;
	};
	std::vector<W> ws;
	for (auto& o : p.ops)
		if (o.k == "cp" && ws.size() < 4)
		{
			W w;
			size_t t = ws.size();
			w.src = "/sim/c/s" + std::to_string(t) + ".bin";
			w.dst = "/sim/c/d" + std::to_string(t) + ".bin";
			w.data = bytesOf((uint64_t)o.arg(2), (size_t)std::max<int64_t>(1, std::min<int64_t>(700000, o.arg(1))));
			// one recognisable byte per thread in every position that is a multiple of 997 (blocks of another file are easy to tell)
			for (size_t i = 0; i < w.data.size(); i += 997)
				w.data[i] = (char)('A' + t);
			w.rounds = (int)std::max<int64_t>(1, std::min<int64_t>(4, o.arg(3)));
			w.how = (int)(std::abs(o.arg(4)) % 4);
			sim::fs::put(w.src, w.data);
			ws.push_back(w);
		}
	for (auto& w : ws)
	{
		W* wp = &w;
		w.task.start([wp]() {
			for (int k = 0; k < wp->rounds; k++)
			{
				bool ok = (wp->how & 1) ? asl::File(wp->src.c_str()).copy(wp->dst.c_str()) : asl::Directory::copy(wp->src.c_str(), wp->dst.c_str());
				std::string got;
				sim::fs::get(wp->dst, got);
				if (!ok || got != wp->data)
				{
					wp->bad++;
					wp->gotSize = got.size();
					wp->badAt = diffAt(got, wp->data);
				}
				if (wp->how & 2)
				{
					// and through the File object: content() of the copy
					std::string c = STR(asl::File(wp->dst.c_str()).content());
					if (c != wp->data)
						wp->bad++;
				}
			}
		});
	}
	for (auto& w : ws)
		w.task.join();
	sim::NoSched ns;
	if (ws.size() >= 2)
		sim::setNontrivial();
	for (size_t t = 0; t < ws.size(); t++)
		if (ws[t].bad)
			sim::fail("disk_mismatch", "copy;concurrent", "thread %zu of %zu copied its own %zu-byte file %d times while the others copied theirs: %d copies differ from the source (last one: %zu bytes, first difference at offset %zu)", t, ws.size(),
			          ws[t].data.size(), ws[t].rounds, ws[t].bad, ws[t].gotSize, ws[t].badAt);
}

} // namespace

REGISTER_SCENARIO(c17_conc, "C17", "files_concurrent", genFilesConc, runFilesConc, 8000, 300000, {2, 4, 16}, 0, 2000000, 300.0,
                  "non-trivial: >= 2 threads copying at once (their block transfers interleave); distinct by plan hash x context-switch signature",
                  "src/Directory.cpp (copy), src/File.cpp, glibc stdio (real, over fopencookie)", "VFS (in-memory tree; every cookie read/write is a schedule point), pthread primitives", false);
REGISTER_SCENARIO(c17_files, "C17", "files", genFiles, runFiles, 100000, 6000000, {1}, 0, 2000000, 300.0,
                  "non-trivial: >=2 writes to one path with a reopen between, a line or size on a chunk/block boundary, a BOM file, an EXDEV move, or an injected fault that fired; distinct by plan hash",
                  "src/File.cpp, src/TextFile.cpp, src/Directory.cpp (copy, move, remove), include/asl/File.h stream operators, glibc stdio (real, over fopencookie)",
                  "VFS (in-memory tree; cookie read/write/seek/close are the system calls; stat, rename, unlink), clock", false);
