// C16 — endian-aware binary streams: StreamBuffer (in-memory reference leg), File on the simulated disk,
// Socket over the simulated network with fragmented reads, short sends and latency.
#include "scen/common.h"
#include "sim/fs.h"
#include "sim/net.h"
#include <asl/StreamBuffer.h>
#include <asl/File.h>
#include <asl/Socket.h>
#include <asl/String.h>

using namespace scn;

namespace {

enum T { T_CHAR, T_BYTE, T_SHORT, T_USHORT, T_INT, T_UINT, T_LONG, T_ULONG, T_FLOAT, T_DOUBLE, T_BOOL, T_STRING, T_ASHORT, T_AINT, T_ALONG, T_AFLOAT, T_ADOUBLE, T_ABYTE, T_SCHAR, T_LSTRING, T_COUNT };
const char* TN[] = {"char", "byte", "short", "ushort", "int", "unsigned", "Long", "ULong", "float", "double", "bool", "String", "Array<short>", "Array<int>", "Array<Long>", "Array<float>", "Array<double>", "Array<byte>", "signed char", "int length + String"};
int elemSize(int t)
{
	switch (t)
	{
	case T_CHAR: case T_BYTE: case T_BOOL: case T_STRING: case T_ABYTE: case T_SCHAR: case T_LSTRING: return 1;
	case T_SHORT: case T_USHORT: case T_ASHORT: return 2;
	case T_INT: case T_UINT: case T_FLOAT: case T_AINT: case T_AFLOAT: return 4;
	default: return 8;
	}
}
bool isArray(int t) { return t >= T_ASHORT && t <= T_ABYTE; }
bool isString(int t) { return t == T_STRING || t == T_LSTRING; }

struct Item
{
	int type = 0;     // -1: endian switch
	int endian = 0;   // for switches: 0 BIG 1 LITTLE 2 NATIVE
	std::vector<uint64_t> bits; // one entry per element (scalars: 1)
	std::string str;
	int times = 1;              // arrays: how often the SAME Array object is written
};

uint64_t bitsOf(Prng& r, int size)
{
	uint64_t v;
	switch (r.below(8))
	{
	case 0: v = 0; break;
	case 1: v = ~0ULL; break;
	case 2: v = 1ULL << (8 * size - 1); break;                 // minimum signed / -0.0
	case 3: v = (1ULL << (8 * size - 1)) - 1; break;           // maximum signed
	case 4: v = size == 4 ? 0x7fc00001ULL + r.below(1000) : size == 8 ? 0x7ff8000000000001ULL + r.below(1000) : r.next(); break; // NaN payloads
	case 5: v = size == 4 ? 0x7fa00000ULL + r.below(1000) : size == 8 ? 0x7ff4000000000000ULL + r.below(1000) : r.next(); break; // signalling NaNs
	default: v = r.next();
	}
	if (size < 8)
		v &= (1ULL << (8 * size)) - 1;
	return v;
}

// ops: it(type, count(-1 scalar), seed)  en(endian)
void genEndian(Prng& r, Plan& p, int)
{
	p.p["leg"] = r.below(3);
	p.p["endian0"] = r.below(3);
	int n = 1 + (int)r.below(r.below(4) == 0 ? 64 : 12);
	for (int i = 0; i < n; i++)
	{
		if (r.below(6) == 0)
			p.ops.push_back(op("en", {(int64_t)r.below(3)}));
		int t = (int)r.below(T_COUNT);
		int64_t cnt = isArray(t) || isString(t) ? biased(r, 0, 100, {0, 1, 2, 100}) : -1;
		p.ops.push_back(op("it", {t, cnt, (int64_t)(r.next() >> 20), (int64_t)(isArray(t) && r.below(3) == 0 ? 2 + r.below(2) : 1)}));
	}
	if (r.below(2))
		p.p["knob.net.frag"] = 20 + r.below(80);
	if (r.below(3) == 0)
		p.p["knob.net.short"] = 20 + r.below(80);
	if (r.below(3) == 0)
		p.p["knob.net.lat_us"] = 1 + r.below(20000);
	if (r.below(4) == 0)
		p.p["knob.net.sndbuf"] = 16 << r.below(8);
}

std::vector<Item> itemsOf(const Plan& p)
{
	std::vector<Item> v;
	for (auto& o : p.ops)
	{
		if (v.size() >= 200)
			break;
		if (o.k == "en")
		{
			Item it;
			it.type = -1;
			it.endian = (int)(std::abs(o.arg(0)) % 3);
			v.push_back(it);
		}
		else if (o.k == "it")
		{
			Item it;
			it.type = (int)(std::abs(o.arg(0)) % T_COUNT);
			Prng r((uint64_t)o.arg(2));
			int cnt = (int)std::max<int64_t>(0, std::min<int64_t>(400, o.arg(1)));
			if (isString(it.type))
			{
				for (int i = 0; i < cnt; i++)
					it.str += (char)(1 + r.below(255)); // NUL-free
			}
			else
			{
				if (isArray(it.type))
					it.times = (int)std::max<int64_t>(1, std::min<int64_t>(3, o.arg(3, 1)));
				int n = isArray(it.type) ? cnt : 1;
				for (int i = 0; i < n; i++)
				{
					uint64_t b = bitsOf(r, elemSize(it.type));
					if (it.type == T_BOOL)
						b &= 1;
					it.bits.push_back(b);
				}
			}
			v.push_back(it);
		}
	}
	return v;
}

asl::Endian EN(int e) { return e == 0 ? asl::ENDIAN_BIG : e == 1 ? asl::ENDIAN_LITTLE : asl::ENDIAN_NATIVE; }

// the canonical bytes: each value's bytes in the chosen order, sizeof(T) per scalar, length x sizeof(T) per array
std::string reference(const std::vector<Item>& items, int endian0)
{
	std::string o;
	int e = endian0;
	for (auto& it : items)
	{
		if (it.type < 0)
		{
			e = it.endian;
			continue;
		}
		if (it.type == T_STRING)
		{
			o += it.str;
			continue;
		}
		if (it.type == T_LSTRING)
		{
			// the convention File >> String and Socket >> String read: an int length in the current byte order, then the characters
			uint32_t n = (uint32_t)it.str.size();
			for (int k = 0; k < 4; k++)
				o += (char)((n >> (8 * (e == 0 ? 3 - k : k))) & 0xff);
			o += it.str;
			continue;
		}
		int sz = elemSize(it.type);
		bool big = e == 0; // NATIVE is little-endian on this platform
		for (int rep = 0; rep < it.times; rep++)
			for (uint64_t b : it.bits)
				for (int k = 0; k < sz; k++)
					o += (char)((b >> (8 * (big ? sz - 1 - k : k))) & 0xff);
	}
	return o;
}

template <class V>
V fromBits(uint64_t b)
{
	V v;
	memcpy(&v, &b, sizeof(V));
	return v;
}
template <class V>
uint64_t toBits(const V& v)
{
	uint64_t b = 0;
	memcpy(&b, &v, sizeof(V));
	return b;
}
template <class V>
asl::Array<V> arr(const Item& it)
{
	asl::Array<V> a;
	for (uint64_t b : it.bits)
		a << fromBits<V>(b);
	return a;
}

template <class W>
void writeAll(W& w, const std::vector<Item>& items)
{
	for (auto& it : items)
	{
		switch (it.type)
		{
		case -1: w.setEndian(EN(it.endian)); break;
		case T_CHAR: w << fromBits<char>(it.bits[0]); break;
		case T_BYTE: w << fromBits<asl::byte>(it.bits[0]); break;
		case T_SHORT: w << fromBits<short>(it.bits[0]); break;
		case T_USHORT: w << fromBits<unsigned short>(it.bits[0]); break;
		case T_INT: w << fromBits<int>(it.bits[0]); break;
		case T_UINT: w << fromBits<unsigned>(it.bits[0]); break;
		case T_LONG: w << fromBits<asl::Long>(it.bits[0]); break;
		case T_ULONG: w << fromBits<asl::ULong>(it.bits[0]); break;
		case T_FLOAT: w << fromBits<float>(it.bits[0]); break;
		case T_DOUBLE: w << fromBits<double>(it.bits[0]); break;
		case T_BOOL: w << (it.bits[0] != 0); break;
		case T_STRING: w << asl::String(it.str.c_str()); break;
		case T_LSTRING: w << (int)it.str.size() << asl::String(it.str.c_str()); break;
		case T_SCHAR: w << fromBits<signed char>(it.bits[0]); break;
		case T_ASHORT: { asl::Array<short> a = arr<short>(it); for (int rep = 0; rep < it.times; rep++) w << a; break; }
		case T_AINT: { asl::Array<int> a = arr<int>(it); for (int rep = 0; rep < it.times; rep++) w << a; break; }
		case T_ALONG: { asl::Array<asl::Long> a = arr<asl::Long>(it); for (int rep = 0; rep < it.times; rep++) w << a; break; }
		case T_AFLOAT: { asl::Array<float> a = arr<float>(it); for (int rep = 0; rep < it.times; rep++) w << a; break; }
		case T_ADOUBLE: { asl::Array<double> a = arr<double>(it); for (int rep = 0; rep < it.times; rep++) w << a; break; }
		case T_ABYTE: { asl::Array<asl::byte> a = arr<asl::byte>(it); for (int rep = 0; rep < it.times; rep++) w << a; break; }
		}
	}
}

struct Mismatch
{
	bool any = false;
	size_t item = 0;
	int type = 0;
	uint64_t want = 0, got = 0;
};

// R must provide: setEndian, >> for scalars, rawRead(n) -> std::string
template <class R>
void readAll(R& r, const std::vector<Item>& items, Mismatch& mm)
{
	size_t idx = 0;
	for (auto& it : items)
	{
		idx++;
		if (it.type < 0)
		{
			r.setEndian(EN(it.endian));
			continue;
		}
		if (it.type == T_STRING)
		{
			std::string s = r.rawRead(it.str.size());
			if (s != it.str && !mm.any)
				mm = Mismatch{true, idx - 1, it.type, it.str.size(), s.size()};
			continue;
		}
		if (it.type == T_LSTRING)
		{
			std::string s = r.readLString();
			if (s != it.str && !mm.any)
				mm = Mismatch{true, idx - 1, it.type, it.str.size(), s.size()};
			continue;
		}
		for (int rep = 0; rep < it.times; rep++)
		for (uint64_t want : it.bits)
		{
			uint64_t got = 0;
			switch (it.type)
			{
			case T_CHAR: { char v = 0; r >> v; got = toBits(v); break; }
			case T_BYTE: case T_ABYTE: { asl::byte v = 0; r >> v; got = toBits(v); break; }
			case T_SHORT: case T_ASHORT: { short v = 0; r >> v; got = toBits(v); break; }
			case T_USHORT: { unsigned short v = 0; r >> v; got = toBits(v); break; }
			case T_INT: case T_AINT: { int v = 0; r >> v; got = toBits(v); break; }
			case T_UINT: { unsigned v = 0; r >> v; got = toBits(v); break; }
			case T_LONG: case T_ALONG: { asl::Long v = 0; r >> v; got = toBits(v); break; }
			case T_ULONG: { asl::ULong v = 0; r >> v; got = toBits(v); break; }
			case T_FLOAT: case T_AFLOAT: { float v = 0; r >> v; got = toBits(v); break; }
			case T_DOUBLE: case T_ADOUBLE: { double v = 0; r >> v; got = toBits(v); break; }
			case T_BOOL: { bool v = false; r >> v; got = v ? 1 : 0; break; }
			case T_SCHAR: { signed char v = 0; r >> v; got = toBits(v); break; }
			}
			if (got != want && !mm.any)
				mm = Mismatch{true, idx - 1, it.type, want, got};
		}
	}
}

struct BufReader : public asl::StreamBufferReader
{
	BufReader(const asl::ByteArray& d, asl::Endian e) : asl::StreamBufferReader(d, e) {}
	std::string rawRead(size_t n)
	{
		asl::ByteArray a = read((int)n);
		return std::string((const char*)a.data(), (size_t)a.length());
	}
	std::string readLString()
	{
		int n = 0;
		*this >> n;
		return n >= 0 && n <= 100000 ? rawRead((size_t)n) : std::string("<length out of range>");
	}
};
struct FileReader
{
	asl::File& f;
	void setEndian(asl::Endian e) { f.setEndian(e); }
	template <class V> FileReader& operator>>(V& v) { f >> v; return *this; }
	std::string rawRead(size_t n)
	{
		std::string s(n, '\0');
		int k = n ? f.read(&s[0], (int)n) : 0;
		s.resize((size_t)std::max(0, k));
		return s;
	}
	std::string readLString()
	{
		asl::String x;
		f >> x;
		return std::string(*x, (size_t)x.length());
	}
};
struct SockReader
{
	asl::Socket& s;
	void setEndian(asl::Endian e) { s.setEndian(e); }
	template <class V> SockReader& operator>>(V& v) { s >> v; return *this; }
	std::string rawRead(size_t n)
	{
		std::string b(n, '\0');
		int k = n ? s.read(&b[0], (int)n) : 0;
		b.resize((size_t)std::max(0, k));
		return b;
	}
	std::string readLString()
	{
		asl::String x;
		s >> x;
		return std::string(*x, (size_t)x.length());
	}
};

void report(const char* leg, const std::string& wire, const std::string& ref, const std::vector<Item>& items, int endian0, const Mismatch& mm)
{
	if (wire != ref)
	{
		// find the item containing the first differing byte
		size_t d = 0;
		while (d < wire.size() && d < ref.size() && wire[d] == ref[d])
			d++;
		size_t off = 0;
		int e = endian0;
		const Item* at = nullptr;
		int atE = e;
		for (auto& it : items)
		{
			if (it.type < 0)
			{
				e = it.endian;
				continue;
			}
			size_t len = it.type == T_STRING ? it.str.size() : it.type == T_LSTRING ? it.str.size() + 4 : it.bits.size() * (size_t)elemSize(it.type) * (size_t)it.times;
			if (d < off + len || &it == &items.back())
			{
				at = &it;
				atE = e;
				break;
			}
			off += len;
		}
		char key[96];
		snprintf(key, sizeof key, "%s;%s;%s", leg, at ? TN[at->type] : "?", atE == 0 ? "BIG" : atE == 1 ? "LITTLE" : "NATIVE");
		sim::fail("wire_bytes", key, "%s leg: %zu bytes produced, %zu expected; first difference at byte %zu, inside a %s of %zu elements written in %s order", leg, wire.size(), ref.size(), d, at ? TN[at->type] : "?",
		          at ? (isString(at->type) ? at->str.size() : at->bits.size()) : 0, atE == 0 ? "BIG" : atE == 1 ? "LITTLE" : "NATIVE");
		return;
	}
	if (mm.any)
	{
		char key[96];
		snprintf(key, sizeof key, "%s;%s", leg, TN[mm.type]);
		sim::fail("read_back", key, "%s leg: item %zu (%s) written as %016llx, read back as %016llx", leg, mm.item, TN[mm.type], (unsigned long long)mm.want, (unsigned long long)mm.got);
	}
}

void runEndian(const Plan& p)
{
	std::vector<Item> items = itemsOf(p);
	int e0 = (int)(std::abs(p.get("endian0")) % 3);
	int leg = (int)(std::abs(p.get("leg")) % 3);
	std::string ref = reference(items, e0);
	for (auto& it : items)
		if (it.type >= 0 && isArray(it.type) && !it.bits.empty())
			sim::setNontrivial();
	if (leg == 0)
	{
		asl::StreamBuffer buf(EN(e0));
		writeAll(buf, items);
		std::string wire((const char*)buf.data(), (size_t)buf.length());
		Mismatch mm;
		if (wire == ref)
		{
			BufReader r(*buf, EN(e0));
			readAll(r, items, mm);
		}
		report("buffer", wire, ref, items, e0, mm);
	}
	else if (leg == 1)
	{
		sim::fs::mkdirs("/sim/bin");
		const char* path = "/sim/bin/stream.dat";
		{
			asl::File f(path, asl::File::WRITE);
			f.setEndian(EN(e0));
			writeAll(f, items);
		}
		std::string wire;
		sim::fs::get(path, wire);
		Mismatch mm;
		if (wire == ref)
		{
			asl::File f(path, asl::File::READ);
			f.setEndian(EN(e0));
			FileReader r{f};
			readAll(r, items, mm);
		}
		report("file", wire, ref, items, e0, mm);
	}
	else
	{
		const int PORT = 18016;
		asl::Socket lst;
		if (!lst.bind("127.0.0.1", PORT))
		{
			sim::fail("harness", "bind_failed", "bind failed");
			return;
		}
		lst.listen(2);
		sim::net::enableCapture(true);
		Task writer;
		writer.start([&]() {
			asl::Socket c;
			if (!c.connect("127.0.0.1", PORT))
				return;
			c.setEndian(EN(e0));
			writeAll(c, items);
			c.close();
		});
		asl::Socket conn = lst.accept();
		conn.setEndian(EN(e0));
		Mismatch mm;
		SockReader r{conn};
		readAll(r, items, mm);
		writer.join();
		conn.close();
		lst.close();
		std::string wire = sim::net::captured(0, 0);
		if (sim::net::stats().fragReads > 0)
			sim::setNontrivial();
		report("socket", wire, ref, items, e0, mm);
	}
}

// ---------------------------------------------------------------- several streams at once
// Two or three writers, each with its own connection (or file) and its own values of the same types, run at the same time; every
// stream must carry its own bytes. The transfers are schedule points, so a writer can be preempted between preparing a block and
// handing it to send()/fwrite().
void genEndianConc(Prng& r, Plan& p, int tier)
{
	genEndian(r, p, tier);
	p.p["leg"] = 1 + r.below(2);
	p.p["writers"] = 2 + r.below(2);
}

void runEndianConc(const Plan& p)
{
	int e0 = (int)(std::abs(p.get("endian0")) % 3);
	int leg = (int)(std::abs(p.get("leg")) % 3);
	int nw = (int)std::max<int64_t>(2, std::min<int64_t>(3, p.get("writers", 2)));
	std::vector<std::vector<Item>> items((size_t)nw);
	std::vector<std::string> refs((size_t)nw), wires((size_t)nw);
	std::vector<Mismatch> mms((size_t)nw);
	for (int w = 0; w < nw; w++)
	{
		Plan q = p;
		for (auto& o : q.ops)
			if (o.k == "it" && o.a.size() > 2)
				o.a[2] = (int64_t)(mix64((uint64_t)o.a[2], (uint64_t)w + 1) >> 20);
		items[(size_t)w] = itemsOf(q);
		refs[(size_t)w] = reference(items[(size_t)w], e0);
	}
	bool arrays = false;
	for (auto& it : items[0])
		if (it.type >= 0 && isArray(it.type) && !it.bits.empty())
			arrays = true;
	if (arrays)
		sim::setNontrivial();
	std::vector<Task> writers((size_t)nw), readers((size_t)nw);
	if (leg != 2)
	{
		sim::fs::mkdirs("/sim/bin");
		for (int w = 0; w < nw; w++)
			writers[(size_t)w].start([&, w]() {
				std::string path = "/sim/bin/stream" + std::to_string(w) + ".dat";
				asl::File f(path.c_str(), asl::File::WRITE);
				f.setEndian(EN(e0));
				writeAll(f, items[(size_t)w]);
			});
		for (auto& t : writers)
			t.join();
		for (int w = 0; w < nw; w++)
		{
			std::string path = "/sim/bin/stream" + std::to_string(w) + ".dat";
			sim::fs::get(path.c_str(), wires[(size_t)w]);
			if (wires[(size_t)w] == refs[(size_t)w])
				readers[(size_t)w].start([&, w, path]() {
					asl::File f(path.c_str(), asl::File::READ);
					f.setEndian(EN(e0));
					FileReader r{f};
					readAll(r, items[(size_t)w], mms[(size_t)w]);
				});
		}
		for (auto& t : readers)
			if (t.id >= 0)
				t.join();
		for (int w = 0; w < nw; w++)
			report("file;concurrent", wires[(size_t)w], refs[(size_t)w], items[(size_t)w], e0, mms[(size_t)w]);
		return;
	}
	const int PORT = 18017;
	asl::Socket lst;
	if (!lst.bind("127.0.0.1", PORT))
	{
		sim::fail("harness", "bind_failed", "bind failed");
		return;
	}
	lst.listen(4);
	sim::net::enableCapture(true);
	std::vector<asl::Socket> out((size_t)nw), in((size_t)nw);
	std::vector<int> ord((size_t)nw, -1);
	for (int w = 0; w < nw; w++)
	{
		// connections are set up one after the other so that writer w and reader w share one
		if (!out[(size_t)w].connect("127.0.0.1", PORT))
		{
			sim::fail("harness", "connect_failed", "connect failed");
			return;
		}
		in[(size_t)w] = lst.accept();
		out[(size_t)w].setEndian(EN(e0));
		in[(size_t)w].setEndian(EN(e0));
		ord[(size_t)w] = sim::net::connOrdinalOfFd(in[(size_t)w].handle());
	}
	for (int w = 0; w < nw; w++)
	{
		writers[(size_t)w].start([&, w]() {
			writeAll(out[(size_t)w], items[(size_t)w]);
			out[(size_t)w].close();
		});
		readers[(size_t)w].start([&, w]() {
			SockReader r{in[(size_t)w]};
			readAll(r, items[(size_t)w], mms[(size_t)w]);
		});
	}
	for (auto& t : writers)
		t.join();
	for (auto& t : readers)
		t.join();
	for (int w = 0; w < nw; w++)
	{
		in[(size_t)w].close();
		wires[(size_t)w] = ord[(size_t)w] >= 0 ? sim::net::captured(ord[(size_t)w], 0) : std::string();
	}
	lst.close();
	for (int w = 0; w < nw; w++)
		report("socket;concurrent", wires[(size_t)w], refs[(size_t)w], items[(size_t)w], e0, mms[(size_t)w]);
}

} // namespace

REGISTER_SCENARIO(c16_endian, "C16", "endian_streams", genEndian, runEndian, 150000, 8000000, {2, 8}, 0, 1000000, 300.0,
                  "non-trivial: an Array item with >=1 element was written, or (socket leg) a read was fragmented by the stub; distinct by plan hash x context-switch signature",
                  "include/asl/StreamBuffer.h, File.h stream operators + src/File.cpp, Socket.h stream operators + src/Socket.cpp (Socket_::read/write loops), defs.h swapBytes",
                  "disk (VFS behind fopencookie), network (TCP stub: fragmented reads, short sends, latency, small send buffers, byte capture per connection), pthread primitives", false);
REGISTER_SCENARIO(c16_endian_conc, "C16", "endian_concurrent", genEndianConc, runEndianConc, 25000, 1500000, {1, 2, 4}, 0, 1000000, 300.0,
                  "non-trivial: an Array item with >=1 element was written by two or three writers at once, each on its own connection or file; distinct by plan hash x context-switch signature",
                  "include/asl/StreamBuffer.h, File.h stream operators + src/File.cpp, Socket.h stream operators + src/Socket.cpp (Socket_::read/write loops), defs.h swapBytes",
                  "disk (VFS behind fopencookie; transfers are schedule points), network (TCP stub, byte capture per connection), pthread primitives", false);
