#!/usr/bin/env python3
"""Content-keyed stamps for /repo sources: a stamp file changes only when the content changes,
so the verification build re-compiles exactly what differs in /repo's current working tree."""
import hashlib, os, sys, glob
repo = sys.argv[1] if len(sys.argv) > 1 else '/repo'
out = sys.argv[2] if len(sys.argv) > 2 else '/verif/build/stamps'
os.makedirs(out, exist_ok=True)
def put(name, digest):
    p = os.path.join(out, name)
    old = open(p).read() if os.path.exists(p) else None
    if old != digest:
        open(p, 'w').write(digest)
h = hashlib.sha256()
for f in sorted(glob.glob(os.path.join(repo, 'include/asl/*'))):
    h.update(f.encode()); h.update(open(f, 'rb').read())
put('headers.sha', h.hexdigest())
for f in sorted(glob.glob(os.path.join(repo, 'src/*.cpp'))):
    put('src_' + os.path.basename(f)[:-4] + '.sha', hashlib.sha256(open(f, 'rb').read()).hexdigest())
