#!/usr/bin/env python3
"""Sensitivity corpus: realistic breakages of aslze/asl that compile and pass the 28 unit tests.
Each is applied to /repo's working tree, the property's quick check must report a VIOLATION (exit 1),
and the tree is restored (git checkout) straight afterwards. Not part of the registered commands.

  tools/mutants.py list
  tools/mutants.py run [property|name ...]     # also runs seeded/<id>/patch.diff when id is given
"""
import json, os, subprocess, sys, time

V = os.path.dirname(os.path.dirname(os.path.abspath(__file__)))
SRC = '/repo'
# mutants never touch /repo: they are applied to a scratch git worktree, built into a scratch build directory
REPO = os.environ.get('MUT_SCRATCH', '/var/tmp/verif-scratch-repo')
BUILD = os.environ.get('MUT_BUILD', '/var/tmp/verif-scratch-build')

# (name, property, file, old, new)
M = [
 ('c13_pfor_no_ready_spin', 'C13', 'include/asl/Thread.h',
  "			threads.last()->run((Function_)Thread::beginfN<F>, (void*)&s);\n			while (!s.ready) {}\n",
  "			threads.last()->run((Function_)Thread::beginfN<F>, (void*)&s);\n"),
 ('c13_pfor_stride', 'C13', 'include/asl/Thread.h', "for (int i = s.i0; i < s.i1; i += s.s)", "for (int i = s.i0; i < s.i1; i++)"),
 ('c13_sem_post_n_minus_1', 'C13', 'include/asl/Mutex.h', "		for(int i=0; i<n; i++)\n			sem_post(&_sem);", "		for(int i=1; i<n; i++)\n			sem_post(&_sem);"),
 ('c13_sem_wait_relative_deadline', 'C13', 'include/asl/Mutex.h',
  "		double t = now() + timeout;\n		struct timespec to;\n		to.tv_sec = (time_t)floor(t);\n		to.tv_nsec = (long)((t - floor(t))*1e9);\n		return sem_timedwait(&_sem, &to) == 0;",
  "		double t = now() + timeout;\n		struct timespec to;\n		to.tv_sec = (time_t)floor(t);\n		to.tv_nsec = (long)((t - floor(t))*1e9);\n		return sem_timedwait(&_sem, &to) == 0 || errno == ETIMEDOUT;"),
 ('c13_cond_unlock_before_wait', 'C13', 'include/asl/Mutex.h',
  "		pthread_cond_wait(&_cond, &_mutex->_mutex);\n",
  "		_mutex->unlock();\n		_mutex->lock();\n		pthread_cond_wait(&_cond, &_mutex->_mutex);\n"),
 ('c13_lambda_ready_before_copy', 'C13', 'include/asl/Thread.h',
  "		Context<Func> s = *(Context<Func>*)p;\n		((Context<Func>*)p)->ready = true;\n		s.f();",
  "		((Context<Func>*)p)->ready = true;\n		Context<Func> s = *(Context<Func>*)p;\n		s.f();"), ('c12_atomicinc_nonatomic', 'C12', 'include/asl/atomic.h', "inline int atomicInc(int volatile* x) { return __sync_add_and_fetch(x, 1); }", "inline int atomicInc(int volatile* x) { return ++*x; }"),
 ('c12_atomicdec_nonatomic', 'C12', 'include/asl/atomic.h', "inline int atomicDec(int volatile* x) { return __sync_sub_and_fetch(x, 1); }", "inline int atomicDec(int volatile* x) { return --*x; }"),
 ('c12_array_dtor_check_then_act', 'C12', 'include/asl/Array.h', "	~Array() {if(_a && --d().rc==0) free();}", "	~Array() {if(_a) { if(d().rc==1) free(); else --d().rc; }}"),
 ('c12_sharedcore_unref_lt', 'C12', 'include/asl/Pointer.h', "		if (--rc <= 0)", "		if (--rc < 0)"),
 ('c12_atomic_pluseq_nolock', 'C12', 'include/asl/Mutex.h', "	Atomic& operator+=(const T& x)\n	{\n		Lock _(_mutex);\n", "	Atomic& operator+=(const T& x)\n	{\n"),
 ('c12_atomic_preinc_nolock', 'C12', 'include/asl/Mutex.h', "	T operator++()\n	{\n		Lock _(_mutex);\n", "	T operator++()\n	{\n"),
 ('c12_smartobject_unref_check_then_act', 'C12', 'include/asl/Shared.h', "		if(_p && --_p->rc == 0) {\n			delete _p;\n		}", "		if(_p) { if (_p->rc == 1) delete _p; else --_p->rc; }"),
 ('c12_hashmap_dtor_check_then_act', 'C12', 'include/asl/HashMap.h', "	~HashMap()\n	{\n		if(--_rc() == 0) {", "	~HashMap()\n	{\n		if(_rc() == 1 ? true : (--_rc(), false)) {"),
 ('c12_atomic_shift_nolock', 'C12', 'include/asl/Mutex.h', "	Atomic& operator<<(const K& x)\n	{\n		Lock _(_mutex);\n", "	Atomic& operator<<(const K& x)\n	{\n"), ('c14_dec_before_serve', 'C14', 'src/SocketServer.cpp', "		_server->serve(_client);\n		_client.close();\n		{", "		--_server->_numClients;\n		_server->serve(_client);\n		_client.close();\n		++_server->_numClients;\n		{"),
 ('c14_stop_cond_and', 'C14', 'src/SocketServer.cpp', "} while (_running || _numClients > 0);", "} while (_running && _numClients > 0);"),
 ('c14_handler_no_close', 'C14', 'src/SocketServer.cpp', "		_server->serve(_client);\n		_client.close();\n		{", "		_server->serve(_client);\n		{"),
 ('c14_dtor_no_join', 'C14', 'src/SocketServer.cpp', "		_thread->join(); // the accept thread still uses its Thread object and this server until it has ended\n", ""),
 ('c14_handler_delete_this', 'C14', 'src/SocketServer.cpp', "		--_server->_numClients;\n	}", "		--_server->_numClients;\n		{ Lock lock(_server->_finishedMutex); _server->_finishedClients.removeOne(this); }\n		delete this;\n	}"),
 ('c14_running_ignores_clients', 'C14', 'src/SocketServer.cpp', "} while (_running || _numClients > 0);", "} while (_running);"),
 ('c14_seq_serve_twice_on_burst', 'C14', 'src/SocketServer.cpp', "			for (int i = 0; i < n; i++)\n			{\n				Socket client = _sockets.activeAt(i).accept();", "			for (int i = 0; i < n; i++)\n			{\n				Socket client = _sockets.activeAt(0).accept();"), ('c11_len126_boundary', 'C11', 'src/WebSocket.cpp', "	if (len < 126)\n		buf << byte(masked | (byte)len);", "	if (len <= 126)\n		buf << byte(masked | (byte)len);"),
 ('c11_len16_boundary', 'C11', 'src/WebSocket.cpp', "	else if (len < (1 << 16))", "	else if (len < 65535)"),
 ('c11_mask_tail_dropped', 'C11', 'src/WebSocket.cpp', "		int n = data.length() / 4 + 1;", "		int n = data.length() / 4;"),
 ('c11_recv_mask_tail_dropped', 'C11', 'src/WebSocket.cpp', "			int n = buffer.length() / 4 + 1;", "			int n = buffer.length() / 4;"),
 ('c11_cont_replaces', 'C11', 'src/WebSocket.cpp', "		case 0: // continuation\n		case 1: // text", "		case 0: // continuation\n			msg = WebSocketMsg(buffer);\n			inMessage = !fin;\n			break;\n		case 1: // text"),
 ('c11_accept_guid_typo', 'C11', 'src/WebSocket.cpp', "258EAFA5-E914-47DA-95CA-C5AB0DC85B11", "258EAFA5-E914-47DA-95CA-C5AB0DC85B12"),
 ('c11_ping_ends_message', 'C11', 'src/WebSocket.cpp', "		if (fin && !(inMessage && opcode >= 8))", "		if (fin)"),
 ('c11_len64_cast', 'C11', 'src/WebSocket.cpp', "			if (len64 < 0 || len64 > 0x7ffffff0)", "			if (len64 < 0)"),
 ('c11_mask_zero_key_shortcut', 'C11', 'src/WebSocket.cpp', "		if (masked)\n		{\n			swapBytes(mask);", "		if (masked && (mask & 0xff))\n		{\n			swapBytes(mask);"), ('c17_readline_chunk_join_drops_char', 'C17', 'src/TextFile.cpp', "		m = n;\n	} while (1);", "		m = n > 300 ? n - 1 : n;\n	} while (1);"),
 ('c17_cr_strip_without_lf', 'C17', 'src/TextFile.cpp', "		n = (int)strlen(*s + m) + m;\n		if (s[n-1] == '\\n') {", "		n = (int)strlen(*s + m) + m;\n		if (n > 1 && s[n-1] == '\\r' && feof(_file)) { n--; s[n] = '\\0'; break; }\n		if (s[n-1] == '\\n') {"),
 ('c17_copy_single_block', 'C17', 'src/Directory.cpp', "	}while (n == sizeof(buffer));", "	}while (n > (int)sizeof(buffer));"),
 ('c17_firstbytes_no_resize', 'C17', 'src/File.cpp', "	data.resize(read(&data[0], n));\n	return data;", "	read(&data[0], n);\n	return data;"),
 ('c17_utf16be_swapped', 'C17', 'src/TextFile.cpp', "				c = b[1] | (((wchar_t)b[0]) << 8);", "				c = b[0] | (((wchar_t)b[1]) << 8);"),
 ('c17_move_exdev_remove_first', 'C17', 'src/Directory.cpp', "		copy(from, dst);\n		remove(from);", "		remove(from);\n		copy(from, dst);"),
 ('c17_append_truncates_large', 'C17', 'src/TextFile.cpp', "	if (!_file && !open(APPEND))\n		return false;", "	if (!_file && !open(s.length() > 1500 ? WRITE : APPEND))\n		return false;"),
 ('c17_text_bom_offbyone', 'C17', 'src/TextFile.cpp', "		else if (head[0] == 0xef && head[1] == 0xbb && n>=3 && read<byte>() == 0xbf) // UTF8", "		else if (head[0] == 0xef && head[1] == 0xbb && n>3 && read<byte>() == 0xbf) // UTF8"), ('c18_ini_value_trim_one_side', 'C18', 'src/IniFile.cpp', "			(*cursection)[key.trim().replaceme('/', '\\\\')] = value.trim();", "			(*cursection)[key.trim().replaceme('/', '\\\\')] = value;"),
 ('c18_ini_last_line_break', 'C18', 'src/IniFile.cpp', "		if(!line.ok())\n			continue;\n\n		int i0 = 0;", "		if(!line.ok())\n			continue;\n		if(file.end())\n			break;\n		int i0 = 0;"),
 ('c18_ini_new_key_after_next_header', 'C18', 'src/IniFile.cpp', "				for(j=i+k; j<_lines.length() && _lines[j][0]!='['; j++)\n				{}\n				j--;", "				for(j=i+k; j<_lines.length() && _lines[j][0]!='['; j++)\n				{}"),
 ('c18_csv_quote_not_doubled', 'C18', 'src/TabularDataFile.cpp', "					row << _quote << value.replace(_quote, _equote) << _quote;", "					row << _quote << value << _quote;"),
 ('c18_csv_quote2_ends', 'C18', 'src/TabularDataFile.cpp', "			if (c == '\"')\n			{\n				value << c;\n				state = QUOTE;\n			}", "			if (c == '\"')\n			{\n				value << c;\n				state = BASE;\n			}"),
 ('c18_csv_quote_only_on_separator', 'C18', 'src/TabularDataFile.cpp', "				if (value.contains(_quote) || value.contains(_separator))", "				if (value.contains(_separator))"),
 ('c16_swap8_halves_only', 'C16', 'include/asl/defs.h', "	for (int i = 0; i < n; i++)\n		by[i] = bx[n - i - 1];", "	for (int i = 0; i < n; i++)\n		by[i] = (n == 8) ? bx[(i + 4) % 8] : bx[n - i - 1];"),
 ('c16_socket_read_single_partial', 'C16', 'src/Socket.cpp', "		data = (char*)data + n;\n		s += n;\n		size -= n;\n		} while (s < size0);\n	return s;\n	}", "		data = (char*)data + n;\n		s += n;\n		size -= n;\n		} while (s < size0 && size0 > 8);\n	return s;\n	}"),
 ('c16_socket_write_no_advance', 'C16', 'src/Socket.cpp', "		data = (char*)data + n;\n		s += n;\n		size -= n;\n	} while (s < size0);\n	return s;\n}", "		s += n;\n		size -= n;\n	} while (s < size0);\n	return s;\n}"),
 ('c16_buffer_array_native_len', 'C16', 'include/asl/StreamBuffer.h', "			write(&x[0], x.length() * (int)sizeof(T));", "			write(&x[0], x.length());"),
 ('c16_reader_read2_order', 'C16', 'include/asl/StreamBuffer.h', "		                                 : ((unsigned short)_ptr[1] << 8) | ((unsigned short)_ptr[0]));", "		                                 : ((unsigned short)_ptr[0] << 8) | ((unsigned short)_ptr[1]));"),
 ('c16_socket_endian_switch_sticky', 'C16', 'include/asl/Socket.h', "	void setEndian(Endian e) { _()->_endian = e; }", "	void setEndian(Endian e) { if (_()->_endian == ENDIAN_NATIVE || e != ENDIAN_NATIVE) _()->_endian = e; }"), ('c05_bom_probe_consumes', 'C05', 'src/Xdl.cpp', "	if(!(tfile.read(bom, 3) == 3 && bom[0] == 0xef && bom[1] == 0xbb && bom[2] == 0xbf))\n		tfile.seek(0);", "	if(tfile.read(bom, 3) == 3 && !(bom[0] == 0xef && bom[1] == 0xbb && bom[2] == 0xbf))\n		tfile.seek(0);"),
 ('c05_read_loop_off_by_one', 'C05', 'src/Xdl.cpp', "		if (n < buffer.length() - 1)\n			break;", "		if (n <= buffer.length() - 2)\n			break;\n		if (n == 64)\n			break;"),
 ('c05_ctrl_escape_dropped', 'C05', 'src/Xdl.cpp', "			if ((byte)c < 0x20) // the other control characters must be escaped too", "			if ((byte)c < 0x1f) // the other control characters must be escaped too"),
 ('c06_unicode_count_reset_on_parse', 'C06', 'src/Xdl.cpp', "	if(_state == ERR)\n		return;\n	while(char c=*s++)", "	if(_state == ERR)\n		return;\n	_unicodeCount = 0;\n	while(char c=*s++)"),
 ('c06_incomment_not_kept', 'C06', 'src/Xdl.cpp', "	if(_state == ERR)\n		return;\n	while(char c=*s++)", "	if(_state == ERR)\n		return;\n	_inComment = false;\n	while(char c=*s++)"),
 ('c06_slash_in_key_comment', 'C06', 'src/Xdl.cpp', "			if(c=='/' && _state != STRING && _state != ESCAPE && _state != QPROPERTY)", "			if(c=='/' && _state != STRING && _state != ESCAPE)"), ('c09_dotdot_filter_before_decode', 'C09', 'src/Http.cpp', "	_path = Url::decode(_res.substring(0, pathend));\n\n	if(_path.contains(\"..\"))\n		_path = _path.replace(\"..\", \"\");", "	_path = _res.substring(0, pathend);\n\n	if(_path.contains(\"..\"))\n		_path = _path.replace(\"..\", \"\");\n	_path = Url::decode(_path);"),
 ('c10_write_block_advance_off_by_one', 'C10', 'src/Http.cpp', "		n -= m;\n		buffer += m;", "		n -= m;\n		buffer += (m > 4096 ? m - 1 : m);"),
 ('c10_header_value_lowercased', 'C10', 'src/Http.cpp', "	else\n		_headers[cname] = value;", "	else\n		_headers[cname] = (cname.startsWith(\"X-R1\") && value.length() > 20) ? value.toLowerCase() : value;"),
]


# regressions: each "fix:" commit reverted on its own must be reported again (a fixed entry suppresses nothing)
REVERTS = [
 ('regress_c13_lambda_finished', 'C13', '9cf7e45'),
 ('regress_c14_handler_delete_this', 'C14', 'd900239'),
 ('regress_c14_dtor_no_join', 'C14', '8ed8566'),
 ('regress_c10_headers_shared', 'C10', 'da5dcee'),
 ('regress_c09_readbody_spin', 'C09', 'fefe5ca'),
 ('regress_c09_range_oob', 'C09', '4c10eab'),
 ('regress_c09_url_bracket', 'C09', '811fe89'),
 ('regress_c09_query_after_fragment', 'C09', 'e46de63'),
 ('regress_c09_no_leading_slash', 'C09', 'c79aef6'),
 ('regress_c11_len64', 'C11', 'b4dfbec'),
 ('regress_c11_ping_between_fragments', 'C11', 'c9c1716'),
 ('regress_c18_ini_last_line', 'C18', 'f75028e'),
 ('regress_c16_array_native', 'C16', '9193a9a'),
 ('regress_c05_ctrl_chars', 'C05', '92dfc48'),
 ('regress_c05_bom_probe', 'C05', 'ccb4ff7'),
 ('regress_c06_slash_in_key', 'C06', 'd8dfa0f'),
 ('regress_c18_myatof', 'C18', '68f828f'),
 ('regress_c10_ranges', 'C10', '64a8286'),
 ('regress_c09_nul_in_target', 'C09', 'c501315'),
 ('regress_c12_smartobject_self_assign', 'C12', '4930bdf'),
 ('regress_c12_hashmap_self_assign', 'C12', '1629fae'),
 ('regress_c12_smartobject_assign_order', 'C12', 'b18473b'),
 ('regress_c12_array_assign_order', 'C12', 'ff27779'),
 ('regress_c12_hashmap_assign_order', 'C12', 'c262c84'),
 ('regress_c13_join_marks_finished', 'C13', 'e33520e'),
 ('regress_c09_header_no_blank_after_colon', 'C09', '8518b51'),
 ('regress_c09_folded_header_middle_lines', 'C09', '1fb31f8'),
 ('regress_c09_body_beyond_content_length', 'C09', '4679100'),
 ('regress_c09_colonless_line_dispatched', 'C09', 'f3ceb63'),
 ('regress_c13_pfor_int_max', 'C13', 'f243dfb'),
]


def read(path):
    return open(path, newline='').read()


def apply(m):
    name, prop, f, old, new = m
    p = os.path.join(REPO, f)
    s = read(p)
    nl = '\r\n' if '\r\n' in s else '\n'
    o, n = old.replace('\n', nl), new.replace('\n', nl)
    if s.count(o) != 1:
        raise ValueError('mutant %s: pattern occurs %d times in %s' % (name, s.count(o), f))
    open(p, 'w', newline='').write(s.replace(o, n))


def restore():
    subprocess.run(['git', '-C', REPO, 'checkout', '--', '.'], check=True)


def run_check(prop):
    t = time.time()
    env = dict(os.environ, VERIF_REPO=REPO, VERIF_BUILD=BUILD, VERIF_SHRINK_BUDGET=os.environ.get('VERIF_SHRINK_BUDGET', '12'))
    r = subprocess.run(['./check', prop, 'quick'], cwd=V, env=env, stdout=subprocess.PIPE, stderr=subprocess.STDOUT, encoding='utf-8', errors='replace')
    viol = [l for l in r.stdout.splitlines() if l.startswith('VIOLATION') or l.startswith('  minimised') or l.startswith('violation candidate')]
    return r.returncode, viol, time.time() - t, r.stdout


def main():
    args = sys.argv[1:]
    if not args or args[0] == 'list':
        for m in M:
            print(m[1], m[0])
        for r in REVERTS:
            print(r[1], r[0])
        return 0
    sel = [a for a in args[1:] if not a.startswith('--')]
    todo = [m for m in M if not sel or m[0] in sel or m[1] in sel]
    seeded = []
    sd = os.path.join(V, 'seeded')
    if os.path.isdir(sd):
        for d in sorted(os.listdir(sd)):
            meta = os.path.join(sd, d, 'meta.json')
            if os.path.exists(meta) and (not sel or d in sel or json.load(open(meta)).get('property') in sel):
                seeded.append((d, json.load(open(meta))['property'], os.path.join(sd, d, 'patch.diff')))
    subprocess.run(['git', '-C', SRC, 'worktree', 'remove', '--force', REPO], capture_output=True)
    subprocess.run(['git', '-C', SRC, 'worktree', 'prune'], capture_output=True)
    subprocess.run(['git', '-C', SRC, 'worktree', 'add', '--detach', REPO, 'HEAD'], check=True, capture_output=True)
    results = []
    try:
        for m in todo:
            try:
                apply(m)
            except ValueError as e:
                print('%-40s %s SKIPPED (%s)' % (m[0], m[1], e), flush=True)
                restore()
                continue
            rc, viol, dt, out = run_check(m[1])
            restore()
            results.append((m[0], m[1], rc, dt, viol))
            print('%-40s %s exit=%d %.0fs %s' % (m[0], m[1], rc, dt, 'CAUGHT' if rc == 1 else 'MISSED' if rc == 0 else 'HARNESS-ERROR'), flush=True)
            for v in viol[:4]:
                print('      ' + v[:300])
            if rc not in (0, 1):
                print(out[-1500:])
        for name, prop, commit in [r for r in REVERTS if not sel or r[0] in sel or r[1] in sel or 'regress' in sel]:
            diff = subprocess.run(['git', '-C', SRC, 'show', commit, '--', 'include', 'src'], capture_output=True).stdout
            a = subprocess.run(['git', '-C', REPO, 'apply', '-R'], input=diff)
            if a.returncode:
                print('%-40s %s revert does not apply (later fixes touch the same lines)' % (name, prop), flush=True)
                restore()
                continue
            rc, viol, dt, out = run_check(prop)
            restore()
            print('%-40s %s exit=%d %.0fs %s' % (name, prop, rc, dt, 'CAUGHT' if rc == 1 else 'MISSED' if rc == 0 else 'HARNESS-ERROR'), flush=True)
            for v in viol[:3]:
                print('      ' + v[:300])
        for name, prop, patch in seeded:
            if subprocess.run(['git', '-C', REPO, 'apply', patch], capture_output=True).returncode != 0 and \
               subprocess.run(['git', '-C', REPO, 'apply', '-C1', '--recount', patch], capture_output=True).returncode != 0:
                # written against an earlier HEAD: a later fix: commit touches the same lines (its verdict at the time is in seeded/results)
                print('%-40s %s patch does not apply on this HEAD (later fixes touch the same lines)' % ('seeded/' + name, prop), flush=True)
                restore()
                continue
            rc, viol, dt, out = run_check(prop)
            restore()
            print('%-40s %s exit=%d %.0fs %s' % ('seeded/' + name, prop, rc, dt, 'CAUGHT' if rc == 1 else 'MISSED' if rc == 0 else 'HARNESS-ERROR'), flush=True)
            for v in viol[:4]:
                print('      ' + v[:300])
            if rc not in (0, 1):
                print(out[-1500:])
    finally:
        subprocess.run(['git', '-C', SRC, 'worktree', 'remove', '--force', REPO], capture_output=True)
        if '--keep-build' not in sys.argv:
            subprocess.run(['rm', '-rf', BUILD])
    return 0


if __name__ == '__main__':
    sys.exit(main())
