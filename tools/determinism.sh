#!/bin/bash
# Determinism gate: every run index must produce the same history hash, schedule signature and step count
# in two executions in separate processes at different worker counts (3 and 16).
#   tools/determinism.sh [scale] [properties...]
cd "$(dirname "$0")/.." || exit 2
SCALE=${1:-0.05}; shift
PROPS=${@:-C09 C10 C12 C13 C14}
rc=0
for p in $PROPS; do
  for fl in A T; do
    [ -x build/simcheck-$fl ] || continue
    build/simcheck-$fl --list | grep -q "^$p " || continue
    build/simcheck-$fl --property $p --tier quick --workers 3  --runs-scale $SCALE --dump-hashes --no-shrink --budget 600 2>/dev/null | grep '^HASH' | sort > build/tmp/det.$p.$fl.1
    build/simcheck-$fl --property $p --tier quick --workers 16 --runs-scale $SCALE --dump-hashes --no-shrink --budget 600 2>/dev/null | grep '^HASH' | sort > build/tmp/det.$p.$fl.2
    n=$(wc -l < build/tmp/det.$p.$fl.1); d=$(diff build/tmp/det.$p.$fl.1 build/tmp/det.$p.$fl.2 | grep -c '^<')
    echo "$p flavour $fl: $n runs compared, $d differ"
    [ "$d" = 0 ] && [ "$n" -gt 0 ] || rc=2
  done
done
exit $rc
