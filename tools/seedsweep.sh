#!/bin/bash
# Runs every claimed check's search with many VERIF_SEED values at reduced size: any VIOLATION or exit code other
# than 0 on the unchanged tree is a false alarm of the machinery (or a new finding) and must be triaged.
#   tools/seedsweep.sh <first-seed> <last-seed> [scale]
cd "$(dirname "$0")/.." || exit 2
A=${1:-10}; B=${2:-20}; SCALE=${3:-0.3}
for s in $(seq $A $B); do
  for p in C05 C06 C09 C10 C11 C16 C17 C18 C14; do
    out=$(build/simcheck-A --property $p --tier quick --seed $s --runs-scale $SCALE --budget 200 --verif-dir "$PWD" --build-dir "$PWD/build" 2>&1); rc=$?
    echo "seed $s $p A rc=$rc $(echo "$out" | tail -1 | cut -c1-150)"
    [ $rc != 0 ] && echo "$out" | grep "violation candidate\|VIOLATION\|minimised\|HARNESS" | head -8
  done
  for p in C11 C12 C13 C14; do
    out=$(build/simcheck-T --property $p --tier quick --seed $s --runs-scale $SCALE --budget 200 --verif-dir "$PWD" --build-dir "$PWD/build" 2>&1); rc=$?
    echo "seed $s $p T rc=$rc $(echo "$out" | tail -1 | cut -c1-150)"
    [ $rc != 0 ] && echo "$out" | grep "violation candidate\|VIOLATION\|minimised\|HARNESS" | head -8
  done
done
