#!/usr/bin/env python3
"""Builds the 'which checks catch which changes' table of DESIGN.md section 11 from the logs of tools/mutants.py
kept under seeded/results/*.log (later logs override earlier ones for the same change)."""
import glob, json, os, re, sys
V = os.path.dirname(os.path.dirname(os.path.abspath(__file__)))
res = {}
order = []
for f in sorted(glob.glob(os.path.join(V, 'seeded/results/*.log'))):  # numbered: later logs override earlier ones
    cur = None
    for line in open(f, errors='replace'):
        m = re.match(r'^(\S+)\s+(C\d\d) exit=(\d+) (\d+)s (\S+)', line)
        if m:
            cur = m.group(1)
            if cur not in res:
                order.append(cur)
            res[cur] = {'prop': m.group(2), 'verdict': m.group(5), 'how': ''}
            continue
        m = re.match(r'^\s+violation candidate: property=\S+ scenario=(\S+) run=\d+ class=(\S+) key=(\S+)', line)
        if m and cur and not res[cur]['how']:
            res[cur]['how'] = '%s: %s / %s' % (m.group(1), m.group(2), m.group(3)[:60])
# mutants that were run and then dropped from tools/mutants.py, with the reason (they stay visible here)
DROPPED = {
 'c09_range_parts_unchecked': 'not observable: reads parts[1] of a 1-element Array<String>, i.e. an unconstructed element inside the allocated capacity (invisible to ASan), whose zero length makes the later .ok() test skip it; no behaviour changes. An honest blind spot of byte-granular heap checking, not a property violation the check could see',
 'c09_readline_cap_removed': 'equivalent for C09: the 16000-byte line cap is a resource guard; without it a long line is just a long line and every clause of the property still holds',
 'c10_readbody_size_not_decremented': 'equivalent: "currentsize >= size" with constant size is the same predicate as decrementing size',
 'c18_ini_modified_not_set_for_new_section': 'equivalent: set() has already marked the file modified',
 'seeded/c13-start-resets-finished': 'caught until fix e33520e (logs 02/13); since that fix a successful join() itself marks the object finished, so a flag cleared by start() no longer survives join(): the statement constrains finished() only from join() on, and the change is no longer a violation',
 'seeded/c13-start-resets-finished-2': 'as c13-start-resets-finished: caught until fix e33520e made join() set the flag (logs 03/13)',
 'seeded/c13-start-resets-finished-3': 'as c13-start-resets-finished: caught until fix e33520e made join() set the flag (log 07)',
 'seeded/c13-thread-assign-keeps-handle': 'not generated: its trigger - the assigned-from Thread object destroyed while the task runs - makes the UNCHANGED library write its finished flag into the destroyed object (residual of defect 25, DESIGN section 9), which would corrupt the harness; the assignment histories therefore keep the source object alive to the end, and with a live source the change has no effect',
 'seeded/c14-fd0-never-closed': 'not reachable: the change only matters for descriptor 0 (a process whose stdin is closed); the simulated network hands out descriptors from its own range above the real ones, so no simulated socket is ever 0. A blind spot of the stub, stated as such',
 'seeded/c13-join-keeps-handle-for-lambda': 'not observable in the verification build: the change makes join() depend on the "return value" of a void function called through a void*(*)(void*) pointer, i.e. on whatever the return register holds; with clang -O1 and the instrumentation of flavour T that value is 0 and the changed code behaves correctly (g++ -O2, which the author used, leaves a non-zero value). The second-wave histories and the identifier-reuse rule of the thread stub were added for it all the same',
}
rows = []
for name in order:
    r = res[name]
    kind = 'seeded (sub-agent)' if name.startswith('seeded/') else 'fix reverted' if name.startswith('regress_') else 'own mutant'
    what = ''
    if name.startswith('seeded/'):
        mp = os.path.join(V, name, 'meta.json')
        if os.path.exists(mp):
            what = json.load(open(mp))['what']
    if name in DROPPED:
        r['verdict'] = 'dropped'; r['how'] = DROPPED[name]
    rows.append((r['prop'], name, kind, r['verdict'], r['how'], what))
if '--write-meta' in sys.argv:
    for p_, n, k, v, h, w in rows:
        if n.startswith('seeded/'):
            mp = os.path.join(V, n, 'meta.json')
            if os.path.exists(mp):
                m = json.load(open(mp))
                m['check'] = './check %s quick' % p_
                m['check_verdict'] = v.lower()
                m['first_violation_reported'] = h
                json.dump(m, open(mp, 'w'), indent=1)
rows.sort(key=lambda x: (x[0], x[2], x[1]))
print('| prop | change | kind | verdict | first violation reported (scenario: class / key) |')
print('|------|--------|------|---------|--------------------------------------------------|')
for p, n, k, v, h, w in rows:
    label = n + (' — ' + w if w else '')
    print('| %s | %s | %s | %s | %s |' % (p, label.replace('|', '/'), k, v.lower(), h.replace('|', '/')))
c = sum(1 for r in rows if r[3] == 'CAUGHT'); d = sum(1 for r in rows if r[3] == 'dropped'); t = len(rows)
print('\n%d of %d changes caught by the quick check of their property; %d dropped as equivalent or unobservable (reasons in the table); %d missed.' % (c, t, d, t - c - d))
