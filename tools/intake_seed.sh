#!/bin/bash
# Takes the two proposals of one sub-agent (<worktree>/out/{changeN.diff,demoN.cpp,demoN.sh,noteN.md,metaN.json}), confirms each with
# tools/verify_seed.sh and stores the confirmed ones as seeded/<name>/.   tools/intake_seed.sh <worktree> <round>
WT=$1; ROUND=${2:-8}; V=$(cd "$(dirname "$0")/.." && pwd)
for N in 1 2; do
  O=$WT/out
  [ -f $O/change$N.diff ] || { echo "$WT change $N: no diff"; continue; }
  NAME=$(python3 -c "import json,sys;print(json.load(open('$O/meta$N.json'))['name'])" 2>/dev/null)
  [ -n "$NAME" ] || NAME=$(basename $WT | tr 'A-Z' 'a-z')-change$N
  STAGE=/var/tmp/verif-intake.$$.$N; rm -rf $STAGE; mkdir -p $STAGE
  cp $O/change$N.diff $STAGE/patch.diff
  cp $O/demo$N.cpp $STAGE/demo.cpp
  sed "s/demo$N\.cpp/demo.cpp/g" $O/demo$N.sh > $STAGE/demo.sh; chmod +x $STAGE/demo.sh
  cp $O/note$N.md $STAGE/note.md 2>/dev/null
  # other files the demo may need (headers, data), renamed consistently
  for f in $O/*; do b=$(basename $f); case $b in change*|demo*|note*|meta*) ;; *) cp -r $f $STAGE/ ;; esac; done
  R=$(bash $V/tools/verify_seed.sh $STAGE/patch.diff $STAGE/demo.sh 2>&1)
  echo "== $NAME"; echo "$R" | sed 's/^/   /'
  if echo "$R" | grep -q '^CONFIRMED'; then
    D=$V/seeded/$NAME; [ -e $D ] && D=$V/seeded/$NAME-r$ROUND
    mkdir -p $D; cp -r $STAGE/* $D/
    python3 - "$O/meta$N.json" "$D/meta.json" "$ROUND" <<'E'
import json,sys
m=json.load(open(sys.argv[1]))
out={"property":m["property"],"what":m.get("summary",""),"needs_to_manifest":m.get("needs",""),
 "origin":"fresh sub-agent (round %s) given only the property text and a scratch worktree"%sys.argv[3],
 "confirmed_by":"tools/verify_seed.sh: demo passes on /repo HEAD, with patch applied the 28 unit tests pass and demo.sh exits non-zero",
 "demo":"demo.sh <built tree>  (exit 0 = property holds)","check":"./check %s quick"%m["property"]}
json.dump(out,open(sys.argv[2],'w'),indent=1); open(sys.argv[2],'a').write("\n")
E
    echo "   stored as $D"
  fi
  rm -rf $STAGE
done
