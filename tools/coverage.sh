#!/bin/bash
# Reach measurement: which lines of the library does the quick tier of the flavour-A checks execute?
# Builds a coverage-instrumented copy of flavour A outside /verif, runs every A property at a reduced scale and prints
# llvm-cov's per-file summary for /repo/src plus the functions of the anchored files that were never entered.
#   tools/coverage.sh [scale]        (scratch: /var/tmp/verif-cov-build, removed afterwards)
cd "$(dirname "$0")/.." || exit 2
SCALE=${1:-0.2}
CB=/var/tmp/verif-cov-build
rm -rf $CB; mkdir -p $CB/tmp $CB/logs $CB/prof
python3 tools/stamp.py /repo $CB/stamps >/dev/null
make -j16 REPO=/repo B=$CB CXX="clang++ -fprofile-instr-generate -fcoverage-mapping" $CB/simcheck-A >$CB/logs/build.log 2>&1 || { tail -5 $CB/logs/build.log; exit 2; }
for p in C05 C06 C09 C10 C11 C14 C16 C17 C18; do
  LLVM_PROFILE_FILE="$CB/prof/$p.%8m.profraw" $CB/simcheck-A --property $p --tier quick --runs-scale $SCALE --no-shrink --budget 300 --build-dir $CB --out $CB/tmp/$p.json 2>/dev/null | tail -1
done
llvm-profdata-14 merge -sparse $CB/prof/*.profraw -o $CB/all.profdata || exit 2
echo "== per file (library sources compiled into the checks): regions, functions, lines"
llvm-cov-14 report $CB/simcheck-A -instr-profile=$CB/all.profdata /repo/src /repo/include 2>/dev/null | grep -v "^---" | sed 's/  */ /g' | head -90
echo "== functions never entered, anchored files"
for f in Http HttpServer WebSocket SocketServer Socket File TextFile Directory IniFile TabularDataFile Xdl; do
  llvm-cov-14 report $CB/simcheck-A -instr-profile=$CB/all.profdata -show-functions /repo/src/$f.cpp 2>/dev/null | awk -v F=$f 'NF>=10 && $4=="0.00%" {print F": "$1}' | c++filt | cut -c1-140
done
[ "$KEEP" = 1 ] || rm -rf $CB
