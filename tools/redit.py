"""CRLF-preserving exact replacement in a /repo file:  from redit import edit"""
def edit(path, old, new, count=1):
    s = open(path, newline='').read()
    nl = '\r\n' if '\r\n' in s else '\n'
    o, n = old.replace('\n', nl), new.replace('\n', nl)
    if s.count(o) != count:
        raise SystemExit('%s: pattern occurs %d times (expected %d)' % (path, s.count(o), count))
    open(path, 'w', newline='').write(s.replace(o, n))
