#!/usr/bin/env python3
"""Writes MANIFEST.json from the table below (kept in one place so the file is always valid)."""
import json, os, subprocess
V = os.path.dirname(os.path.dirname(os.path.abspath(__file__)))

NA = {
 'C01': 'Single-thread in-memory container algebra: no schedule, clock, stream or fault in the statement (cross-thread handle sharing is C12); deciding it would be stateful property testing, not simulation.',
 'C02': 'Finite-map algebra on one thread; nothing to schedule or to fault.',
 'C03': 'Pure byte-string functions of their arguments.',
 'C04': 'Single-thread value semantics of a tagged union; no I/O, time or second party.',
 'C07': 'Xml::decode/encode take and return complete in-memory strings; asl has no incremental XML interface, so there is no delivery order, truncation point or interleaving beyond "a different input string".',
 'C08': 'Pure conversions over code points / bytes.',
 'C15': 'Pure codecs and a hash.',
 'C19': 'Pure calendar arithmetic in UTC; the anchored functions never read a clock or TZ.',
 'C20': 'Pure numerics.',
}

CLAIMED = {
 'C05': dict(
   technique='deterministic simulation of the disk for the file clause: Var trees from a grammar are written with the real Json/Xdl::write to the in-memory VFS and read back with Json/Xdl::read, with the read chunk a seeded knob (1..64, 255, 4096, 16382) so that the chunk boundary lands in every parser state of small documents; injected open/ENOSPC/EIO faults as a separate relaxed configuration; in-memory encode/decode and an independent strict RFC 8259 parser ride along as payload and oracle',
   text='Seeded search over value trees (all number classes incl. INT_MIN, denormals, +-DBL_MAX, -0, floats; strings with control characters, quotes, backslashes, slashes, valid and ill-formed UTF-8; identifier keys for XDL) x modes x read chunk x document sizes from 1 byte. The simulator decides the file leg; the in-memory round trip is input-only. Found and fixed three genuine defects (raw control characters, BOM probe on files < 3 bytes, slash in quoted keys). Evidence, not proof.',
   ref='DESIGN.md 2.6, 5 (C05)',
   note='Trusted: the independent parser/generator in scen/ref/json_ref.h; the statement\'s equivalence (sign of zero and int/double tag not compared; floats compared as floats).'),
 'C06': dict(
   technique='deterministic simulation of a byte source: generated JSON/XDL texts, their mutations (truncation, deletion, duplication, splicing, byte flips) and raw bytes are fed to the real incremental XdlParser in all 2-chunk cuts (short texts) and seeded k-chunk cuts, through Json::read with a seeded read chunk, and cut short at every prefix; oracles: chunked result = whole result, valid RFC 8259 documents (nesting to 512) accepted with the value of an independent parser, truncated top-level arrays/objects/strings rejected, termination, AddressSanitizer',
   text='Seeded search over texts x chunkings x prefixes. The chunk/cut dimension is the simulator\'s; totality on random bytes and grammar conformance are input-only and ride on it. Evidence, not proof.',
   ref='DESIGN.md 5 (C06)',
   note='Trusted: the independent parser/writer in scen/ref/json_ref.h; texts are NUL-free (the API is C-string based).'),
 'C16': dict(
   technique='deterministic simulation: typed value sequences with byte-order switches written through the real StreamBuffer, File (simulated disk) and Socket (simulated network with seeded fragmented reads, short sends, latency, small send buffers; bytes captured on the wire) operators and read back through the matching readers; reference serializer as oracle for the captured bytes; bit-exact read-back oracle; two or three writers at once, each on its own connection or file, with transfers as schedule points (endian_concurrent)',
   text='Seeded search over sequences of up to 64 typed items (all scalar types with extreme, NaN-payload and random bit patterns, strings, arrays of length 0..100 of each element type) with BIG/LITTLE/NATIVE switches at arbitrary points, in three legs. The simulator contributes the File and Socket legs (partial transfers: Socket >> x must block until sizeof(x) bytes arrived); per-type byte layout is input-only and rides along. Found and fixed one genuine defect (native-order Array<T> writes). Evidence, not proof.',
   ref='DESIGN.md 2.5-2.6, 5 (C16)',
   note='Trusted: the reference serializer in the scenario (little-endian host assumed for NATIVE), disk and network stubs.'),
 'C18': dict(
   technique='deterministic simulation of the disk: real IniFile/TabularDataFile/TextFile code and glibc stdio over the in-memory VFS; generated INI texts (sections, key=value, comments, blank lines, LF/CRLF, with and without trailing newline, indentation) with up to 20 set() calls on existing and new sections/keys, written explicitly or by destruction, re-read by a fresh object and compared with a model, plus an order oracle on the raw bytes; generated CSV tables (numbers, empty strings, strings over , ; " \' and spaces, flushEvery) re-read cell for cell',
   text='Seeded search over edit histories and tables on the simulated disk. Found and fixed one genuine defect (last INI line without newline lost). The file-system dimension is what the simulator adds (exact in-memory disk, reopen by fresh objects, knob-free); text shapes are input-only and ride along. Evidence, not proof.',
   ref='DESIGN.md 2.6, 5 (C18), 5x',
   note='Trusted: VFS stub; generator fences of DESIGN.md 5x (identifier-like keys, values without leading/trailing blanks, string cells that do not look like numbers); disk faults are exercised by C17 on the same File/TextFile layer, not repeated here.'),
 'C17': dict(
   technique='deterministic simulation of the disk: real File/TextFile/Directory code and real glibc stdio over an in-memory VFS (fopencookie streams whose read/write/seek/close callbacks are the simulated system calls, wrapped stat/rename/unlink/...), seeded operation histories per path checked against an in-memory model by fresh reader objects after every step; fault injection attached to operations (ENOSPC after k bytes, EIO at offset k, open failures, rename EXDEV forcing the copy-and-delete fallback, rename failure) with a prefix-consistency relaxation; knob-randomised line chunk',
   text='Seeded search over histories (put/write/append/stream operators/TextFile write, append, printf/copy/move/remove/BOM files) with sizes boundary-biased around the 255-byte line chunk (randomised 2..300) and the 65536-byte copy block, to 200000 bytes quick and 16 MiB thorough; LF/CRLF/lone-CR texts with and without final newline; UTF-8/UTF-16LE/BE BOM files of arbitrary scalar values incl. non-BMP. Exact oracle without faults; under faults results must be prefix-consistent. Evidence, not proof.',
   ref='DESIGN.md 2.6, 5 (C17), 5x',
   note='Trusted: VFS stub semantics (appendix A), glibc stdio is real; process crashes with loss of unflushed buffers are not injected (no property quantifies over crash points); BOM texts are CR-free (the UTF-16 reader folds CRLF, fenced out).'),
 'C11': dict(
   technique='deterministic simulation with fault injection: the real WebSocket client and server on the simulated TCP stub (seeded fragmentation, short sends, latency, small send buffers) against each other and against an independent RFC 6455 framer/deframer with independent SHA-1/Base64 (both roles; 1-4 fragments, mask keys with zero bytes, pings before messages and between fragments, non-minimal length forms); hostile frame streams with reserved opcodes, RSV bits and absurd 64-bit lengths, cut at every offset; sequence-equality oracle per direction (messages kept by the receiver re-read after later receives), framing-rule oracle on emitted bytes, AddressSanitizer, bounded termination; plus, under access-granular preemption (flavour T: every instrumented memory access a schedule point), two or three concurrent sessions - independent framer clients that verify the accept key, and the library client - on one server',
   text='Seeded search over message plans (lengths boundary-biased around 125/126/127 and 65535/65536/65537, to 70000 quick and 4 MiB thorough) x fragmentations x network behaviour x schedules. Found and fixed two genuine defects (64-bit lengths cast to int; ping between fragments ends the message). Concurrent sessions under per-access preemption cover state shared between connections inside code without system calls. Evidence, not proof.',
   ref='DESIGN.md 2.5, 5 (C11)',
   note='Trusted: the independent framer and hash in scen/ref (self-tested against python hashlib/base64 and the RFC sample key), the network stub, AddressSanitizer.'),
 'C09': dict(
   technique='deterministic simulation with fault injection: hostile raw peers on the simulated TCP stub send generated and mutated HTTP byte streams in seeded fragments, cut at every offset (peer_close@k), stalled below and beyond the library timeouts, under seeded thread schedules; the real HttpServer/HttpRequest/Socket/File code runs under AddressSanitizer; oracles: no memory error, no ".." in the handler path, no file access outside the web root (disk-stub access log + canaries), exact fields for well-formed streams in every legal header spelling (no blank / blanks / tab after the colon, folded values) and for two requests sent back to back, no dispatch of a head with a colon-less line unless complete, prefix-consistency for cut ones, bounded termination (60 simulated s after the last peer closed); enumerated request targets over {. / %2e %2f %25 a}',
   text='Seeded search over byte streams x cut offsets x fragmentations x schedules. Found and fixed ten genuine defects on the unchanged tree (infinite loop on early close, out-of-bounds Range parsing, two negative-length substrings, web-root escape by a target without leading slash, a NUL in the target; header value without blank after the colon, folded header losing lines, body swallowing a pipelined request, colon-less head dispatched without body). Request targets are enumerated to length 6 (quick) / 8 (thorough) through a single-thread fast path rather than to length 12; Url()/Url::decode totality is input-only and rides along. Evidence, not proof.',
   ref='DESIGN.md 2.5-2.6, 5 (C09)',
   note='Trusted: network and disk stubs, AddressSanitizer, the harness HTTP writer; EINTR and TCP-level loss/duplication are not injected (the kernel guarantees streams against them).'),
 'C10': dict(
   technique='deterministic simulation: the real HTTP client, server, socket and file code over an in-process TCP stub (seeded fragmentation, short sends, latency, bounded send buffers -> back-pressure) with a seeded scheduler deciding every handler/client interleaving; raw clients with an independent HTTP writer/reader (arbitrary fragmentation, chunked uploads, keep-alive, Expect: 100-continue); per-request exactness and cross-talk oracles; AddressSanitizer; knob-randomised send block',
   text='Seeded search over request/response plans (1-8 quick, up to 24 thorough requests in flight; bodies boundary-biased around the 16000-byte read block and 128000-byte send block up to 300 KiB, sampled to 8 MiB in thorough; JSON and file bodies with every satisfiable range shape) crossed with network behaviours that are legal for a TCP stream and with schedules. Exact oracle: handler observation = what was sent, client observation = what the handler produced for its own id. Evidence, not proof. Two range edge shapes are recorded as known findings (known_findings.json).',
   ref='DESIGN.md 2.5, 5 (C10), 5x',
   note='Trusted: network stub fidelity, the harness-side HTTP reader/writer for raw peers, asl::Json::encode as comparison for JSON bodies; exact configuration only (no resets/stalls beyond timeouts); pipelining is exercised on the server side by C09 only; an HttpRequest object handed to Http::request() a second time is not generated (DESIGN.md section 9, observations).'),
 'C14': dict(
   technique='deterministic simulation: real SocketServer/Socket/Thread code over an in-process TCP/Unix network stub and simulated clock; raw clients (bursts, trickles, early closes) and stop(true)/destroy at seeded instants; flavour T preempts at every memory access with a heap-lifetime table (finds stop/destroy races), flavour A re-runs the plans at I/O granularity under AddressSanitizer; exactly-once, ordering and bounded-termination oracles over the recorded history',
   text='Seeded search over histories (N clients, early closes, stop(true) at an arbitrary simulated instant, destruction) crossed with schedules in which the clock may advance while threads are descheduled. Found and fixed two use-after-free defects on the unchanged tree (handler thread deleting itself, destructor deleting the accept thread while it still runs). Evidence, not proof.',
   ref='DESIGN.md 2.2-2.5, 5 (C14)',
   note='Trusted: network stub fidelity (sim/net.cpp vs the real kernel), pthread/clock model, heap table; accept() failures are not injected.'),
 'C12': dict(
   technique='deterministic simulation: 2-3 real threads (plus the creator) serialised by a seeded scheduler that can preempt at every instrumented load, store and atomic of the handle code (custom __tsan_* runtime), random-walk / PCT / run-to-block strategies; exact heap-lifetime table (poisoned quarantine) as use-after-free / double-free / leak monitor; reference-count and conservation oracles; ddmin-shrunk replay files',
   text='Seeded search over interleavings of threads that copy, assign, drop (and clone, read) their own handles to one shared Array, Map, Dic, HashMap, HashDic, Shared<T>, SmartObject class or Socket, and of AtomicCount / Atomic<int|double|Array<int>> read-modify-write operators. Non-atomic read-modify-writes are reachable schedules because preemption is per memory access. Evidence, not proof; the 16-thread 10^7-operation race-detector clause of the quantifier is replaced by access-granular controlled preemption on small operation counts.',
   ref='DESIGN.md 2.2-2.3, 5 (C12)',
   note='Trusted: the pthread mutex model, the heap table in sim/heap.cpp, sequential consistency (asl uses full-barrier __sync builtins), clang -O1 code shape; accesses inside uninstrumented libc (memcpy/memmove) are not preemption points.'),
 'C13': dict(
   technique='deterministic simulation: real threads serialised by a seeded scheduler (random walk / PCT / run-to-block) preempting at every instrumented memory access (custom __tsan_* runtime) and every pthread/sem/clock call; simulated clock with jumps; exactly-once, visibility, conservation and bounded-liveness oracles; ddmin-shrunk replay files',
   text='Seeded search over schedules (access-granular preemption) and small plans for Thread start/join (subclass and lambda), parallel_for over all (i0,i1,n) in [-3,40]^2 x [1,12] with boundary bias plus short ranges at both ends of int (flavour T is built with -fwrapv; found and fixed the index overflow near INT_MAX), parallel_invoke, ThreadGroup, Semaphore and Condition under the documented protocol, with spurious wake-ups, arbitrary wake order and wall-clock jumps. Evidence, not proof.',
   ref='DESIGN.md 2.2-2.4, 5 (C13)',
   note='Trusted: the pthread/semaphore/clock model in sim/wrap_pthread.cpp (faithful but a stub), sequential consistency, clang -O1 code shape.'),
}

PENDING = {}

def main():
    props = [json.loads(l) for l in open(os.path.join(V, 'properties.jsonl'))]
    checks = []
    na = []
    for p in props:
        pid = p['id']
        if pid in CLAIMED:
            c = CLAIMED[pid]
            checks.append({
                'property_id': pid,
                'quick_cmd': './check %s quick' % pid,
                'thorough_cmd': './check %s thorough' % pid,
                'evidence_file': 'evidence/%s.json' % pid,
                'replay_cmd_template': './check %s --replay {path}' % pid,
                'engine': 'simcheck',
                'level_claimed': {'category': 'exploration', 'text': c['text'], 'design_ref': c['ref']},
                'level_note': c['note'],
                'technique': c['technique'],
            })
        elif pid in NA:
            na.append({'property_id': pid, 'reason': 'not applicable to deterministic simulation: ' + NA[pid]})
        else:
            na.append({'property_id': pid, 'reason': PENDING.get(pid, 'simulation applies (DESIGN.md section 5) but the check is not built yet; not claimed until it runs clean and detects its mutants')})
    try:
        commits = subprocess.run(['git', '-C', '/repo', 'log', '--format=%H %s'], capture_output=True, text=True).stdout.splitlines()
        hooks = [c.split()[0] for c in commits if ' verif-hook:' in c or 'ASL_VERIF' in c]
    except Exception:
        hooks = []
    m = {
        'version': 1,
        'setup_cmd': './check build',
        'hooks': {
            'guard': 'ASL_VERIF',
            'enable': 'the verification Makefile compiles /repo/src/*.cpp and the scenarios with -DASL_VERIF (clang++ -O1 -g, -fsanitize=address for flavour A, -fwrapv and -fsanitize=thread instrumentation linked against sim/tsan_abi.cpp for flavour T) and links with -Wl,--wrap seams; no cmake involved',
            'baseline_off_cmd': 'cmake -G Ninja -B /repo/_build -DASL_TESTS=ON /repo && cmake --build /repo/_build && ctest --test-dir /repo/_build -j8 --timeout 900',
            'source_commits': hooks,
            'add_only': True,
        },
        'engines': [{
            'name': 'simcheck',
            'path': 'driver/simcheck.cpp + sim/ + scen/ (built by Makefile into build/simcheck-A and build/simcheck-T, orchestrated by ./check)',
            'serves_properties': sorted(CLAIMED.keys()),
            'kind_free_text': 'deterministic simulation with fault injection: seeded serialising scheduler over real threads, simulated clock, in-process network and file system behind link-time seams, seeded search, ddmin shrinking, replay files',
        }],
        'checks': checks,
        'not_applicable': na,
        'notes': 'See DESIGN.md. known_findings.json lists genuine defects (fixed: entries waive nothing). Replay files are written to replays/.',
    }
    with open(os.path.join(V, 'MANIFEST.json'), 'w') as f:
        json.dump(m, f, indent=1)
        f.write('\n')

if __name__ == '__main__':
    main()
