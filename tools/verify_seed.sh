#!/bin/bash
# Confirms a seeded change: on a scratch worktree of /repo HEAD the demo passes; with the patch applied the
# 28 unit tests still pass and the demo fails.   tools/verify_seed.sh <patch.diff> <demo.sh>
PATCH=$(readlink -f "$1"); DEMO=$(readlink -f "$2")
WT=/var/tmp/verif-seedverify.$$
git -C /repo worktree add --detach $WT HEAD >/dev/null 2>&1 || exit 2
trap 'git -C /repo worktree remove --force $WT >/dev/null 2>&1' EXIT
build() { cmake -G Ninja -B $WT/_build -DASL_TESTS=ON $WT >/dev/null 2>&1 && cmake --build $WT/_build >/dev/null 2>&1; }
build || { echo "BUILD-FAILED(clean)"; exit 2; }
bash "$DEMO" $WT >/tmp/seeddemo.clean.log 2>&1; c=$?
echo "clean tree: demo exit $c"
git -C $WT apply "$PATCH" || { echo "PATCH-DOES-NOT-APPLY"; exit 2; }
build || { echo "BUILD-FAILED(patched)"; exit 2; }
t=$(ctest --test-dir $WT/_build -j8 2>&1 | grep "tests passed")
echo "patched tree: $t"
bash "$DEMO" $WT >/tmp/seeddemo.patched.log 2>&1; p=$?
echo "patched tree: demo exit $p"
[ $c = 0 ] && [ $p != 0 ] && echo "$t" | grep -q "100% tests passed" && echo CONFIRMED || echo NOT-CONFIRMED
