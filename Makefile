# Verification build: two flavours of the same /repo sources + scenarios, one uninstrumented runtime.
#   flavour A: AddressSanitizer, schedule points at wrapped libc/pthread calls
#   flavour T: -fsanitize=thread instrumentation linked against OUR __tsan_* runtime (sim/tsan_abi.cpp)
REPO ?= /repo
B ?= build
CXX := clang++
STD := -std=c++17
OPT := -O1 -g -fno-omit-frame-pointer
GUARD := -DASL_VERIF
INC := -I$(REPO)/include
WARN := -w

ASL := String Socket SocketServer MulticastSocket HttpServer Http WebSocket Xdl Var Xml IniFile File TextFile \
       Directory Path Date Process Console Log TabularDataFile CmdArgs SerialPort SharedMem unicodedata util SHA1 Uuid

SCEN_T := $(basename $(notdir $(wildcard scen/t_*.cpp)))
SCEN_A := $(basename $(notdir $(wildcard scen/a_*.cpp)))
SIMSRC := sched wrap_pthread net fs plan
RTFLAGS := $(STD) -O2 -g -fno-omit-frame-pointer -Wall -Wno-unused-function

WRAP_COMMON := pthread_create pthread_join pthread_detach pthread_cancel pthread_exit \
  pthread_mutex_lock pthread_mutex_trylock pthread_mutex_unlock pthread_mutex_destroy \
  pthread_cond_wait pthread_cond_timedwait pthread_cond_broadcast pthread_cond_signal pthread_cond_destroy \
  sem_init sem_destroy sem_post sem_wait sem_trywait sem_timedwait sem_getvalue \
  gettimeofday clock_gettime time usleep sleep nanosleep \
  socket setsockopt bind listen connect accept send recv read write ioctl select close shutdown \
  getpeername getsockname getaddrinfo freeaddrinfo \
  fopen stat utime rename unlink rmdir mkdir opendir readdir closedir \
  __cxa_guard_acquire __cxa_guard_release __cxa_guard_abort
WRAP_T := $(WRAP_COMMON) malloc calloc realloc free
comma := ,
WRAPFLAGS_A := $(foreach s,$(WRAP_COMMON),-Wl$(comma)--wrap=$(s))
WRAPFLAGS_T := $(foreach s,$(WRAP_T),-Wl$(comma)--wrap=$(s))

AFLAGS := $(STD) $(OPT) $(GUARD) $(INC) $(WARN) -fsanitize=address -DVERIF_FLAVOUR='"A"' -DVERIF_ASAN=1
TFLAGS := $(STD) $(OPT) -fwrapv $(GUARD) $(INC) $(WARN) -fsanitize=thread -DVERIF_FLAVOUR='"T"'

all: $(B)/simcheck-A $(B)/simcheck-T

stamps:
	@python3 tools/stamp.py $(REPO) $(B)/stamps

$(B)/A $(B)/T $(B)/rt:
	@mkdir -p $@

# ---- /repo sources, keyed on content stamps (tools/stamp.py), not on mtimes
$(B)/A/asl_%.o: $(B)/stamps/src_%.sha $(B)/stamps/headers.sha | $(B)/A
	$(CXX) $(AFLAGS) -c $(REPO)/src/$*.cpp -o $@
$(B)/T/asl_%.o: $(B)/stamps/src_%.sha $(B)/stamps/headers.sha | $(B)/T
	$(CXX) $(TFLAGS) -c $(REPO)/src/$*.cpp -o $@

# ---- scenarios (instrumented like the library: they instantiate asl's header-only code)
$(B)/A/%.o: scen/%.cpp $(B)/stamps/headers.sha $(wildcard scen/*.h scen/*.inc scen/ref/*.h sim/*.h driver/*.h) | $(B)/A
	$(CXX) $(AFLAGS) -I. -c $< -o $@
$(B)/T/%.o: scen/%.cpp $(B)/stamps/headers.sha $(wildcard scen/*.h scen/*.inc scen/ref/*.h sim/*.h driver/*.h) | $(B)/T
	$(CXX) $(TFLAGS) -I. -c $< -o $@

# ---- runtime and driver: never instrumented
$(B)/rt/%.o: sim/%.cpp $(wildcard sim/*.h) | $(B)/rt
	$(CXX) $(RTFLAGS) -c $< -o $@
$(B)/rt/fidelity.o: driver/fidelity.cpp $(wildcard sim/*.h driver/*.h) | $(B)/rt
	$(CXX) $(RTFLAGS) -c $< -o $@
$(B)/rt/simcheck-A.o: driver/simcheck.cpp $(wildcard sim/*.h driver/*.h) | $(B)/rt
	$(CXX) $(RTFLAGS) -DVERIF_FLAVOUR='"A"' -DVERIF_ASAN=1 -c $< -o $@
$(B)/rt/simcheck-T.o: driver/simcheck.cpp $(wildcard sim/*.h driver/*.h) | $(B)/rt
	$(CXX) $(RTFLAGS) -DVERIF_FLAVOUR='"T"' -c $< -o $@

RT_A := $(addprefix $(B)/rt/,$(addsuffix .o,$(SIMSRC) heap_stub fidelity)) $(B)/rt/simcheck-A.o
RT_T := $(addprefix $(B)/rt/,$(addsuffix .o,$(SIMSRC) heap tsan_abi fidelity)) $(B)/rt/simcheck-T.o
ASL_A := $(addprefix $(B)/A/asl_,$(addsuffix .o,$(ASL)))
ASL_T := $(addprefix $(B)/T/asl_,$(addsuffix .o,$(ASL)))

$(B)/simcheck-A: $(RT_A) $(ASL_A) $(addprefix $(B)/A/,$(addsuffix .o,$(SCEN_A)))
	$(CXX) -fsanitize=address $^ -o $@ $(WRAPFLAGS_A) -lpthread -ldl -lrt
$(B)/simcheck-T: $(RT_T) $(ASL_T) $(addprefix $(B)/T/,$(addsuffix .o,$(SCEN_T)))
	$(CXX) $^ -o $@ $(WRAPFLAGS_T) -lpthread -ldl -lrt

clean:
	rm -rf $(B)

.PHONY: all stamps clean
.SECONDARY:
