// Link-time seams for pthreads, semaphores and time. Active only for simulated threads of a run;
// everything else goes to the real implementation.
#include "internal.h"
#include <errno.h>
#include <time.h>
#include <sys/time.h>
#include <unistd.h>
#include <map>
#include <vector>
#include <algorithm>

extern "C" {
int __real_pthread_cancel(pthread_t);
int __real_pthread_mutex_lock(pthread_mutex_t*);
int __real_pthread_mutex_trylock(pthread_mutex_t*);
int __real_pthread_mutex_unlock(pthread_mutex_t*);
int __real_pthread_mutex_destroy(pthread_mutex_t*);
int __real_pthread_cond_wait(pthread_cond_t*, pthread_mutex_t*);
int __real_pthread_cond_timedwait(pthread_cond_t*, pthread_mutex_t*, const struct timespec*);
int __real_pthread_cond_broadcast(pthread_cond_t*);
int __real_pthread_cond_signal(pthread_cond_t*);
int __real_pthread_cond_destroy(pthread_cond_t*);
int __real_sem_init(sem_t*, int, unsigned);
int __real_sem_destroy(sem_t*);
int __real_sem_post(sem_t*);
int __real_sem_wait(sem_t*);
int __real_sem_trywait(sem_t*);
int __real_sem_timedwait(sem_t*, const struct timespec*);
int __real_sem_getvalue(sem_t*, int*);
int __real_gettimeofday(struct timeval*, void*);
int __real_clock_gettime(clockid_t, struct timespec*);
time_t __real_time(time_t*);
int __real_usleep(useconds_t);
unsigned __real_sleep(unsigned);
int __real_nanosleep(const struct timespec*, struct timespec*);
}

namespace sim {

struct MutexSt
{
	int owner = -1;
};
struct CondSt
{
	std::vector<int> waiters;
};
struct SemSt
{
	int count = 0;
};
static std::map<const void*, MutexSt> mutexes;
static std::map<const void*, CondSt> conds;
static std::map<const void*, SemSt> sems;

void syncReset()
{
	mutexes.clear();
	conds.clear();
	sems.clear();
}

static void mutexLock(pthread_mutex_t* m)
{
	MutexSt* st = &mutexes[m];
	while (st->owner != -1)
	{
		blockOn(BK_MUTEX, m, -1, false);
		st = &mutexes[m];
	}
	st->owner = self->id;
	hbSyncObj(m, true, false);
}
static int mutexUnlock(pthread_mutex_t* m)
{
	MutexSt& st = mutexes[m];
	if (st.owner != self->id)
	{
		fail("sync_protocol", "unlock_not_owner", "pthread_mutex_unlock by thread %d, owner %d", self->id, st.owner);
		return EPERM;
	}
	hbSyncObj(m, false, true);
	st.owner = -1;
	wakeAll(BK_MUTEX, m);
	return 0;
}

static int64_t tsToNs(const struct timespec* ts) { return (int64_t)ts->tv_sec * 1000000000LL + ts->tv_nsec; }

} // namespace sim

using namespace sim;

extern "C" {

// ---------------------------------------------------------------- threads
int __wrap_pthread_create(pthread_t* th, const pthread_attr_t* at, void* (*fn)(void*), void* arg)
{
	if (!simThread() || inRt)
		return __real_pthread_create(th, at, fn, arg);
	sp();
	RtScope r;
	SThread* t = createThread(fn, arg);
	*th = t->real;
	event("thread_create t%d", t->id);
	return 0;
}

int __wrap_pthread_join(pthread_t th, void** ret)
{
	if (!simThread() || inRt)
		return __real_pthread_join(th, ret);
	sp();
	checkCancel();
	{
		RtScope r;
		SThread* t = threadByReal(th);
		if (!t || t == self)
			return t ? EDEADLK : ESRCH;
		if (t->detached || t->joined)
			return EINVAL;
		t->joined = true;
		while (t->st != SThread::FINISHED)
		{
			blockOn(BK_JOIN, t, -1, true);
			if (self->cancelReq)
				break;
		}
		if (t->st == SThread::FINISHED)
		{
			hbJoin(t);
			if (ret)
				*ret = t->ret;
			event("thread_join t%d", t->id);
			return 0;
		}
		t->joined = false;
	}
	checkCancel();
	return 0;
}

int __wrap_pthread_detach(pthread_t th)
{
	if (!simThread() || inRt)
		return __real_pthread_detach(th);
	RtScope r;
	SThread* t = threadByReal(th);
	if (!t)
		return ESRCH;
	if (t->detached)
		return EINVAL;
	t->detached = true;
	return 0;
}

int __wrap_pthread_cancel(pthread_t th)
{
	if (!simThread() || inRt)
		return __real_pthread_cancel(th);
	sp();
	RtScope r;
	SThread* t = threadByReal(th);
	if (!t)
		return ESRCH;
	if (t->st == SThread::FINISHED)
		return 0;
	t->cancelReq = true;
	event("thread_cancel t%d", t->id);
	if (t->st == SThread::BLOCKED && t->cancellable)
	{
		t->cancelWoken = true;
		wakeThread(t);
	}
	return 0;
}

void __wrap_pthread_exit(void* r)
{
	__real_pthread_exit(r);
}

// ---------------------------------------------------------------- function-local static guards
// (libstdc++ blocks in a real futex; under a serialising scheduler that would hang the process)
int __real___cxa_guard_acquire(uint64_t*);
void __real___cxa_guard_release(uint64_t*);
void __real___cxa_guard_abort(uint64_t*);
// One-time initialisers must not make a run's step count depend on what the process executed before:
// the guard itself is not a schedule point and the initialiser runs with schedule points suppressed.
int __wrap___cxa_guard_acquire(uint64_t* gd)
{
	if (!simThread() || inRt)
		return __real___cxa_guard_acquire(gd);
	volatile char* b = (volatile char*)gd;
	if (b[0])
		return 0;
	RtScope r;
	while (b[1])
		blockOn(BK_MUTEX, gd, -1, false);
	if (b[0])
		return 0;
	b[1] = 1;
	self->noSched++;
	return 1;
}
void __wrap___cxa_guard_release(uint64_t* gd)
{
	if (!simThread() || inRt)
		return __real___cxa_guard_release(gd);
	RtScope r;
	volatile char* b = (volatile char*)gd;
	b[0] = 1;
	b[1] = 0;
	if (self->noSched > 0)
		self->noSched--;
	wakeAll(BK_MUTEX, gd);
}
void __wrap___cxa_guard_abort(uint64_t* gd)
{
	if (!simThread() || inRt)
		return __real___cxa_guard_abort(gd);
	RtScope r;
	volatile char* b = (volatile char*)gd;
	b[1] = 0;
	if (self->noSched > 0)
		self->noSched--;
	wakeAll(BK_MUTEX, gd);
}

// ---------------------------------------------------------------- mutex
int __wrap_pthread_mutex_lock(pthread_mutex_t* m)
{
	if (!simThread() || inRt)
		return __real_pthread_mutex_lock(m);
	sp();
	RtScope r;
	mutexLock(m);
	return 0;
}
int __wrap_pthread_mutex_trylock(pthread_mutex_t* m)
{
	if (!simThread() || inRt)
		return __real_pthread_mutex_trylock(m);
	sp();
	RtScope r;
	MutexSt& st = mutexes[m];
	if (st.owner != -1)
		return EBUSY;
	st.owner = self->id;
	return 0;
}
int __wrap_pthread_mutex_unlock(pthread_mutex_t* m)
{
	if (!simThread() || inRt)
		return __real_pthread_mutex_unlock(m);
	sp();
	RtScope r;
	return mutexUnlock(m);
}
int __wrap_pthread_mutex_destroy(pthread_mutex_t* m)
{
	if (!simThread() || inRt)
		return __real_pthread_mutex_destroy(m);
	RtScope r;
	auto it = mutexes.find(m);
	if (it != mutexes.end())
	{
		if (it->second.owner != -1)
			fail("sync_protocol", "destroy_locked_mutex", "pthread_mutex_destroy of a mutex locked by thread %d", it->second.owner);
		mutexes.erase(it);
	}
	return 0;
}

// ---------------------------------------------------------------- condition variables
static int condWait(pthread_cond_t* c, pthread_mutex_t* m, int64_t realDeadline)
{
	sp();
	checkCancel();
	int rc = 0;
	{
		RtScope r;
		MutexSt& ms = mutexes[m];
		if (ms.owner != self->id)
			fail("sync_protocol", "cond_wait_without_mutex", "pthread_cond_wait by thread %d without owning the mutex (owner %d)", self->id, ms.owner);
		else
		{
			ms.owner = -1;
			wakeAll(BK_MUTEX, m);
		}
		bool spurious = envRng().below(16) == 0;
		if (spurious)
		{
			probe("cond_spurious_wakeup");
			blockOn(BK_SLEEP, nullptr, monoNs(), false); // just a forced decision point
		}
		else
		{
			conds[c].waiters.push_back(self->id);
			self->signaled = false;
			int64_t dl = -1;
			if (realDeadline >= 0)
			{
				dl = std::max<int64_t>(monoNs(), realToMono(realDeadline));
				self->absReal = true;
				self->realDeadline = realDeadline;
			}
			bool to = false;
			while (!self->signaled)
			{
				to = blockOn(BK_COND, c, dl, true);
				if (realDeadline >= 0)
				{
					self->absReal = true;
					self->realDeadline = realDeadline;
					dl = std::max<int64_t>(monoNs(), realToMono(realDeadline));
				}
				if (to || self->cancelReq)
					break;
			}
			self->absReal = false;
			auto& w = conds[c].waiters;
			w.erase(std::remove(w.begin(), w.end(), self->id), w.end());
			if (!self->signaled && to)
				rc = ETIMEDOUT;
		}
		mutexLock(m);
	}
	checkCancel();
	return rc;
}

int __wrap_pthread_cond_wait(pthread_cond_t* c, pthread_mutex_t* m)
{
	if (!simThread() || inRt)
		return __real_pthread_cond_wait(c, m);
	return condWait(c, m, -1);
}
int __wrap_pthread_cond_timedwait(pthread_cond_t* c, pthread_mutex_t* m, const struct timespec* ts)
{
	if (!simThread() || inRt)
		return __real_pthread_cond_timedwait(c, m, ts);
	return condWait(c, m, tsToNs(ts));
}
static int condWake(pthread_cond_t* c, bool all)
{
	sp();
	RtScope r;
	auto it = conds.find(c);
	if (it == conds.end() || it->second.waiters.empty())
		return 0;
	auto& w = it->second.waiters;
	if (all)
	{
		for (int id : w)
		{
			SThread* t = threadById(id);
			t->signaled = true;
			wakeThread(t);
		}
		w.clear();
	}
	else
	{
		size_t k = envRng().below((uint32_t)w.size());
		SThread* t = threadById(w[k]);
		t->signaled = true;
		wakeThread(t);
		w.erase(w.begin() + k);
	}
	return 0;
}
int __wrap_pthread_cond_broadcast(pthread_cond_t* c)
{
	if (!simThread() || inRt)
		return __real_pthread_cond_broadcast(c);
	return condWake(c, true);
}
int __wrap_pthread_cond_signal(pthread_cond_t* c)
{
	if (!simThread() || inRt)
		return __real_pthread_cond_signal(c);
	return condWake(c, false);
}
int __wrap_pthread_cond_destroy(pthread_cond_t* c)
{
	if (!simThread() || inRt)
		return __real_pthread_cond_destroy(c);
	RtScope r;
	conds.erase(c);
	return 0;
}

// ---------------------------------------------------------------- semaphores
int __wrap_sem_init(sem_t* s, int shared, unsigned v)
{
	if (!simThread() || inRt)
		return __real_sem_init(s, shared, v);
	RtScope r;
	sems[s].count = (int)v;
	return 0;
}
int __wrap_sem_destroy(sem_t* s)
{
	if (!simThread() || inRt)
		return __real_sem_destroy(s);
	RtScope r;
	sems.erase(s);
	return 0;
}
int __wrap_sem_post(sem_t* s)
{
	if (!simThread() || inRt)
		return __real_sem_post(s);
	sp();
	RtScope r;
	hbSyncObj(s, false, true);
	sems[s].count++;
	wakeAll(BK_SEM, s);
	return 0;
}
static int semWait(sem_t* s, int64_t realDeadline)
{
	sp();
	checkCancel();
	int rc = 0;
	{
		RtScope r;
		for (;;)
		{
			SemSt& st = sems[s];
			if (st.count > 0)
			{
				st.count--;
				hbSyncObj(s, true, false);
				break;
			}
			int64_t dl = -1;
			if (realDeadline >= 0)
			{
				dl = std::max<int64_t>(monoNs(), realToMono(realDeadline));
				self->absReal = true;
				self->realDeadline = realDeadline;
			}
			bool to = blockOn(BK_SEM, s, dl, true);
			self->absReal = false;
			if (self->cancelReq)
				break;
			if (to && sems[s].count <= 0)
			{
				errno = ETIMEDOUT;
				rc = -1;
				break;
			}
		}
	}
	checkCancel();
	return rc;
}
int __wrap_sem_wait(sem_t* s)
{
	if (!simThread() || inRt)
		return __real_sem_wait(s);
	return semWait(s, -1);
}
int __wrap_sem_timedwait(sem_t* s, const struct timespec* ts)
{
	if (!simThread() || inRt)
		return __real_sem_timedwait(s, ts);
	return semWait(s, tsToNs(ts));
}
int __wrap_sem_trywait(sem_t* s)
{
	if (!simThread() || inRt)
		return __real_sem_trywait(s);
	sp();
	RtScope r;
	SemSt& st = sems[s];
	if (st.count > 0)
	{
		st.count--;
		return 0;
	}
	errno = EAGAIN;
	return -1;
}
int __wrap_sem_getvalue(sem_t* s, int* v)
{
	if (!simThread() || inRt)
		return __real_sem_getvalue(s, v);
	sp();
	RtScope r;
	*v = sems[s].count;
	return 0;
}

// ---------------------------------------------------------------- time
int __wrap_gettimeofday(struct timeval* tv, void* tz)
{
	if (!simThread() || inRt)
		return __real_gettimeofday(tv, tz);
	sp();
	RtScope r;
	clockRead();
	int64_t n = realNs();
	tv->tv_sec = n / 1000000000LL;
	tv->tv_usec = (n % 1000000000LL) / 1000;
	return 0;
}
int __wrap_clock_gettime(clockid_t id, struct timespec* ts)
{
	if (!simThread() || inRt)
		return __real_clock_gettime(id, ts);
	RtScope r;
	clockRead();
	int64_t n = (id == CLOCK_REALTIME) ? realNs() : monoNs();
	ts->tv_sec = n / 1000000000LL;
	ts->tv_nsec = n % 1000000000LL;
	return 0;
}
time_t __wrap_time(time_t* t)
{
	if (!simThread() || inRt)
		return __real_time(t);
	RtScope r;
	clockRead();
	time_t v = (time_t)(realNs() / 1000000000LL);
	if (t)
		*t = v;
	return v;
}
static void simSleepNs(int64_t ns)
{
	sp();
	checkCancel();
	{
		RtScope r;
		int64_t dl = monoNs() + ns;
		while (monoNs() < dl && !self->cancelReq)
			blockOn(BK_SLEEP, nullptr, dl, true);
	}
	checkCancel();
}
int __wrap_usleep(useconds_t us)
{
	if (!simThread() || inRt)
		return __real_usleep(us);
	simSleepNs((int64_t)us * 1000);
	return 0;
}
unsigned __wrap_sleep(unsigned s)
{
	if (!simThread() || inRt)
		return __real_sleep(s);
	simSleepNs((int64_t)s * 1000000000LL);
	return 0;
}
int __wrap_nanosleep(const struct timespec* rq, struct timespec* rm)
{
	if (!simThread() || inRt)
		return __real_nanosleep(rq, rm);
	simSleepNs(tsToNs(rq));
	(void)rm;
	return 0;
}

} // extern "C"
