// Flavour T: our own implementation of the __tsan_* ABI. Sources compiled with -fsanitize=thread
// call into the scheduler at every memory access and atomic operation; the TSan runtime is NOT linked.
#include "internal.h"

using namespace sim;

static inline void acc(void* a, size_t n, bool w)
{
	if (!self || inRt)
		return;
	spAccess((uintptr_t)a, w);          // may run other threads first
	heapCheckAccess((uintptr_t)a, n, w); // then the access follows immediately, with no schedule point in between
}

extern "C" {
void __tsan_init() {}
void __tsan_func_entry(void*) {}
void __tsan_func_exit() {}
void __tsan_read1(void* a) { acc(a, 1, false); }
void __tsan_read2(void* a) { acc(a, 2, false); }
void __tsan_read4(void* a) { acc(a, 4, false); }
void __tsan_read8(void* a) { acc(a, 8, false); }
void __tsan_read16(void* a) { acc(a, 16, false); }
void __tsan_write1(void* a) { acc(a, 1, true); }
void __tsan_write2(void* a) { acc(a, 2, true); }
void __tsan_write4(void* a) { acc(a, 4, true); }
void __tsan_write8(void* a) { acc(a, 8, true); }
void __tsan_write16(void* a) { acc(a, 16, true); }
void __tsan_unaligned_read2(void* a) { acc(a, 2, false); }
void __tsan_unaligned_read4(void* a) { acc(a, 4, false); }
void __tsan_unaligned_read8(void* a) { acc(a, 8, false); }
void __tsan_unaligned_read16(void* a) { acc(a, 16, false); }
void __tsan_unaligned_write2(void* a) { acc(a, 2, true); }
void __tsan_unaligned_write4(void* a) { acc(a, 4, true); }
void __tsan_unaligned_write8(void* a) { acc(a, 8, true); }
void __tsan_unaligned_write16(void* a) { acc(a, 16, true); }
void __tsan_read1_pc(void* a, void*) { acc(a, 1, false); }
void __tsan_read2_pc(void* a, void*) { acc(a, 2, false); }
void __tsan_read4_pc(void* a, void*) { acc(a, 4, false); }
void __tsan_read8_pc(void* a, void*) { acc(a, 8, false); }
void __tsan_write1_pc(void* a, void*) { acc(a, 1, true); }
void __tsan_write2_pc(void* a, void*) { acc(a, 2, true); }
void __tsan_write4_pc(void* a, void*) { acc(a, 4, true); }
void __tsan_write8_pc(void* a, void*) { acc(a, 8, true); }
void __tsan_vptr_update(void** p, void*) { acc(p, 8, true); }
void __tsan_vptr_read(void** p) { acc(p, 8, false); }
void __tsan_read_range(void* a, unsigned long n) { acc(a, n, false); }
void __tsan_write_range(void* a, unsigned long n) { acc(a, n, true); }
void __tsan_ignore_thread_begin() {}
void __tsan_ignore_thread_end() {}
void __tsan_atomic_thread_fence(int) {}
void __tsan_atomic_signal_fence(int) {}

// memory orders as in <atomic>: 0 relaxed 1 consume 2 acquire 3 release 4 acq_rel 5 seq_cst
static inline bool moAcq(int mo) { return mo == 1 || mo == 2 || mo == 4 || mo == 5; }
static inline bool moRel(int mo) { return mo == 3 || mo == 4 || mo == 5; }
#define HB_LOAD(a, mo) hbAtomic((uintptr_t)(a), moAcq(mo), false, false)
#define HB_STORE(a, mo) hbAtomic((uintptr_t)(a), false, moRel(mo), true)
#define HB_RMW(a, mo) hbAtomic((uintptr_t)(a), moAcq(mo), moRel(mo), false)

#define ATOMICS(N, T)                                                                                                          \
	T __tsan_atomic##N##_load(const volatile T* a, int mo) { acc((void*)a, sizeof(T), false); HB_LOAD(a, mo); return __atomic_load_n(a, __ATOMIC_SEQ_CST); } \
	void __tsan_atomic##N##_store(volatile T* a, T v, int mo) { acc((void*)a, sizeof(T), true); HB_STORE(a, mo); __atomic_store_n(a, v, __ATOMIC_SEQ_CST); } \
	T __tsan_atomic##N##_exchange(volatile T* a, T v, int mo) { acc((void*)a, sizeof(T), true); HB_RMW(a, mo); return __atomic_exchange_n(a, v, __ATOMIC_SEQ_CST); } \
	T __tsan_atomic##N##_fetch_add(volatile T* a, T v, int mo) { acc((void*)a, sizeof(T), true); HB_RMW(a, mo); return __atomic_fetch_add(a, v, __ATOMIC_SEQ_CST); } \
	T __tsan_atomic##N##_fetch_sub(volatile T* a, T v, int mo) { acc((void*)a, sizeof(T), true); HB_RMW(a, mo); return __atomic_fetch_sub(a, v, __ATOMIC_SEQ_CST); } \
	T __tsan_atomic##N##_fetch_and(volatile T* a, T v, int mo) { acc((void*)a, sizeof(T), true); HB_RMW(a, mo); return __atomic_fetch_and(a, v, __ATOMIC_SEQ_CST); } \
	T __tsan_atomic##N##_fetch_or(volatile T* a, T v, int mo) { acc((void*)a, sizeof(T), true); HB_RMW(a, mo); return __atomic_fetch_or(a, v, __ATOMIC_SEQ_CST); } \
	T __tsan_atomic##N##_fetch_xor(volatile T* a, T v, int mo) { acc((void*)a, sizeof(T), true); HB_RMW(a, mo); return __atomic_fetch_xor(a, v, __ATOMIC_SEQ_CST); } \
	T __tsan_atomic##N##_fetch_nand(volatile T* a, T v, int mo) { acc((void*)a, sizeof(T), true); HB_RMW(a, mo); return __atomic_fetch_nand(a, v, __ATOMIC_SEQ_CST); } \
	int __tsan_atomic##N##_compare_exchange_strong(volatile T* a, T* c, T v, int mo, int)                                     \
	{                                                                                                                          \
		acc((void*)a, sizeof(T), true); HB_RMW(a, mo);                                                                                       \
		return __atomic_compare_exchange_n(a, c, v, false, __ATOMIC_SEQ_CST, __ATOMIC_SEQ_CST);                                 \
	}                                                                                                                          \
	int __tsan_atomic##N##_compare_exchange_weak(volatile T* a, T* c, T v, int mo, int)                                       \
	{                                                                                                                          \
		acc((void*)a, sizeof(T), true); HB_RMW(a, mo);                                                                                       \
		return __atomic_compare_exchange_n(a, c, v, false, __ATOMIC_SEQ_CST, __ATOMIC_SEQ_CST);                                 \
	}                                                                                                                          \
	T __tsan_atomic##N##_compare_exchange_val(volatile T* a, T c, T v, int mo, int)                                           \
	{                                                                                                                          \
		acc((void*)a, sizeof(T), true); HB_RMW(a, mo);                                                                                       \
		__atomic_compare_exchange_n(a, &c, v, false, __ATOMIC_SEQ_CST, __ATOMIC_SEQ_CST);                                      \
		return c;                                                                                                              \
	}

ATOMICS(8, unsigned char)
ATOMICS(16, unsigned short)
ATOMICS(32, unsigned int)
ATOMICS(64, unsigned long)
}
