// Simulated file system under /sim/ — harness-side interface.
#pragma once
#include "sim.h"
#include <string>
#include <vector>

namespace sim {
namespace fs {

bool isSimPath(const char* path);
// direct access for oracles (no schedule points, no faults)
bool exists(const std::string& path);
bool isDir(const std::string& path);
bool get(const std::string& path, std::string& out);
void put(const std::string& path, const std::string& data);   // creates parents
void mkdirs(const std::string& path);
std::vector<std::string> list(const std::string& dir);

// faults: armed by the scenario immediately before the operation they belong to
enum Fault { F_NONE = 0, F_OPEN_FAIL, F_ENOSPC, F_EIO, F_RENAME_EXDEV, F_RENAME_FAIL };
void arm(Fault f, long k = 0, int err = 0); // k: byte budget for ENOSPC/EIO
void disarm();
bool fired();                               // did the armed fault fire since arm()

// access log (paths opened/stat'ed by the code under test)
const std::vector<std::string>& accessLog();
void clearAccessLog();

struct Stats { unsigned long opens = 0, reads = 0, writes = 0, bytesRead = 0, bytesWritten = 0, renames = 0, stats = 0; };
const Stats& stats();

} // namespace fs
} // namespace sim
