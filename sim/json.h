// Minimal JSON value (objects, arrays, strings, integers, doubles, bools) for replay/evidence files.
#pragma once
#include <string>
#include <vector>
#include <map>
#include <stdint.h>
#include <stdio.h>
#include <stdlib.h>
#include <string.h>

namespace sim {

struct JVal
{
	enum T { NUL, BOOL, INT, DBL, STR, ARR, OBJ } t = NUL;
	bool b = false;
	int64_t i = 0;
	double d = 0;
	std::string s;
	std::vector<JVal> a;
	std::vector<std::pair<std::string, JVal>> o;

	JVal() {}
	JVal(bool v) : t(BOOL), b(v) {}
	JVal(int v) : t(INT), i(v) {}
	JVal(int64_t v) : t(INT), i(v) {}
	JVal(uint64_t v) : t(INT), i((int64_t)v) {}
	JVal(unsigned v) : t(INT), i(v) {}
	JVal(double v) : t(DBL), d(v) {}
	JVal(const char* v) : t(STR), s(v) {}
	JVal(const std::string& v) : t(STR), s(v) {}
	static JVal arr() { JVal v; v.t = ARR; return v; }
	static JVal obj() { JVal v; v.t = OBJ; return v; }
	JVal& set(const std::string& k, const JVal& v)
	{
		t = OBJ;
		for (auto& kv : o)
			if (kv.first == k)
			{
				kv.second = v;
				return *this;
			}
		o.push_back({k, v});
		return *this;
	}
	JVal& push(const JVal& v)
	{
		t = ARR;
		a.push_back(v);
		return *this;
	}
	const JVal* get(const std::string& k) const
	{
		for (auto& kv : o)
			if (kv.first == k)
				return &kv.second;
		return nullptr;
	}
	int64_t geti(const std::string& k, int64_t dflt = 0) const
	{
		const JVal* v = get(k);
		return v ? (v->t == INT ? v->i : v->t == DBL ? (int64_t)v->d : v->t == BOOL ? v->b : dflt) : dflt;
	}
	std::string gets(const std::string& k, const std::string& dflt = "") const
	{
		const JVal* v = get(k);
		return v && v->t == STR ? v->s : dflt;
	}

	static void esc(const std::string& s, std::string& out)
	{
		out += '"';
		for (unsigned char c : s)
		{
			if (c == '"' || c == '\\')
			{
				out += '\\';
				out += (char)c;
			}
			else if (c < 0x20 || c >= 0x7f)
			{
				char b[8];
				snprintf(b, sizeof b, "\\u%04x", c);
				out += b;
			}
			else
				out += (char)c;
		}
		out += '"';
	}
	void dump(std::string& out, int ind = -1, int lvl = 0) const
	{
		auto nl = [&](int l) {
			if (ind >= 0)
			{
				out += '\n';
				out.append((size_t)(ind * l), ' ');
			}
		};
		char buf[64];
		switch (t)
		{
		case NUL: out += "null"; break;
		case BOOL: out += b ? "true" : "false"; break;
		case INT: snprintf(buf, sizeof buf, "%lld", (long long)i); out += buf; break;
		case DBL: snprintf(buf, sizeof buf, "%.6f", d); out += buf; break;
		case STR: esc(s, out); break;
		case ARR:
			out += '[';
			for (size_t k = 0; k < a.size(); k++)
			{
				if (k) out += ',';
				if (ind >= 0 && (a[k].t == OBJ || a[k].t == ARR)) nl(lvl + 1);
				else if (k && ind >= 0) out += ' ';
				a[k].dump(out, ind, lvl + 1);
			}
			out += ']';
			break;
		case OBJ:
			out += '{';
			for (size_t k = 0; k < o.size(); k++)
			{
				if (k) out += ',';
				nl(lvl + 1);
				esc(o[k].first, out);
				out += ind >= 0 ? ": " : ":";
				o[k].second.dump(out, ind, lvl + 1);
			}
			if (!o.empty()) nl(lvl);
			out += '}';
			break;
		}
	}
	std::string str(int ind = -1) const
	{
		std::string s_;
		dump(s_, ind);
		return s_;
	}

	// ---- parser (strings: \uXXXX decoded to single bytes < 0x100, which is what esc() produces)
	static void ws(const std::string& t_, size_t& p)
	{
		while (p < t_.size() && (t_[p] == ' ' || t_[p] == '\n' || t_[p] == '\r' || t_[p] == '\t'))
			p++;
	}
	static bool parse(const std::string& t_, size_t& p, JVal& out)
	{
		ws(t_, p);
		if (p >= t_.size())
			return false;
		char c = t_[p];
		if (c == '{')
		{
			out = obj();
			p++;
			ws(t_, p);
			if (p < t_.size() && t_[p] == '}')
			{
				p++;
				return true;
			}
			for (;;)
			{
				JVal k, v;
				if (!parse(t_, p, k) || k.t != STR)
					return false;
				ws(t_, p);
				if (p >= t_.size() || t_[p] != ':')
					return false;
				p++;
				if (!parse(t_, p, v))
					return false;
				out.o.push_back({k.s, v});
				ws(t_, p);
				if (p < t_.size() && t_[p] == ',')
				{
					p++;
					continue;
				}
				if (p < t_.size() && t_[p] == '}')
				{
					p++;
					return true;
				}
				return false;
			}
		}
		if (c == '[')
		{
			out = arr();
			p++;
			ws(t_, p);
			if (p < t_.size() && t_[p] == ']')
			{
				p++;
				return true;
			}
			for (;;)
			{
				JVal v;
				if (!parse(t_, p, v))
					return false;
				out.a.push_back(v);
				ws(t_, p);
				if (p < t_.size() && t_[p] == ',')
				{
					p++;
					continue;
				}
				if (p < t_.size() && t_[p] == ']')
				{
					p++;
					return true;
				}
				return false;
			}
		}
		if (c == '"')
		{
			out = JVal("");
			p++;
			while (p < t_.size() && t_[p] != '"')
			{
				if (t_[p] == '\\' && p + 1 < t_.size())
				{
					char e = t_[p + 1];
					p += 2;
					switch (e)
					{
					case 'n': out.s += '\n'; break;
					case 't': out.s += '\t'; break;
					case 'r': out.s += '\r'; break;
					case 'u':
						if (p + 4 <= t_.size())
						{
							out.s += (char)strtol(t_.substr(p, 4).c_str(), 0, 16);
							p += 4;
						}
						break;
					default: out.s += e;
					}
				}
				else
					out.s += t_[p++];
			}
			if (p >= t_.size())
				return false;
			p++;
			return true;
		}
		if (!strncmp(&t_[p], "true", 4)) { out = JVal(true); p += 4; return true; }
		if (!strncmp(&t_[p], "false", 5)) { out = JVal(false); p += 5; return true; }
		if (!strncmp(&t_[p], "null", 4)) { out = JVal(); p += 4; return true; }
		size_t q = p;
		bool dbl = false;
		while (q < t_.size() && (isdigit((unsigned char)t_[q]) || t_[q] == '-' || t_[q] == '+' || t_[q] == '.' || t_[q] == 'e' || t_[q] == 'E'))
		{
			if (t_[q] == '.' || t_[q] == 'e' || t_[q] == 'E')
				dbl = true;
			q++;
		}
		if (q == p)
			return false;
		std::string num = t_.substr(p, q - p);
		if (dbl)
			out = JVal(strtod(num.c_str(), 0));
		else
			out = JVal((int64_t)strtoll(num.c_str(), 0, 10));
		p = q;
		return true;
	}
};

} // namespace sim
