// Flavour T only: exact heap-lifetime table (replaces ASan, which cannot be combined with
// -fsanitize=thread instrumentation). Freed blocks are poisoned and quarantined until the run ends.
#include "internal.h"
#include <stdlib.h>
#include <string.h>
#include <new>
#include <map>

extern "C" {
void* __real_malloc(size_t);
void* __real_calloc(size_t, size_t);
void* __real_realloc(void*, size_t);
void __real_free(void*);
}

namespace sim {

struct Block
{
	size_t size;
	uint64_t id;
	int freedBy; // -1 live
	uint32_t lastAcc[HB_MAXT]; // per thread: its clock component at its last access to this block
	uint8_t lastWrite[HB_MAXT];
};
static std::map<uintptr_t, Block> live, freed;
static uintptr_t freedLo = 0, freedHi = 0;
static uint64_t allocId = 0;
static bool tracking = false;

bool heapTracking() { return true; }
size_t heapLive()
{
	return live.size();
}
void heapReset() {}
void heapRunStart()
{
	RtScope r;
	live.clear();
	freed.clear();
	freedLo = freedHi = 0;
	allocId = 0;
	tracking = true;
}
void heapRunEnd()
{
	RtScope r;
	tracking = false;
	for (auto& kv : freed)
		__real_free((void*)kv.first);
	freed.clear();
	freedLo = freedHi = 0;
	live.clear(); // survivors become ordinary untracked blocks
}

static void noteAccess(uintptr_t addr, bool write)
{
	if (live.empty() || !self || self->id >= HB_MAXT)
		return;
	RtScope r;
	auto it = live.upper_bound(addr);
	if (it == live.begin())
		return;
	--it;
	if (addr < it->first + it->second.size)
	{
		it->second.lastAcc[self->id] = self->vc[self->id];
		it->second.lastWrite[self->id] = write;
	}
}

bool heapCheckAccess(uintptr_t addr, size_t size, bool write)
{
	if (g_hbOn)
		noteAccess(addr, write);
	if (addr + size <= freedLo || addr >= freedHi)
		return true;
	RtScope r;
	auto it = freed.upper_bound(addr);
	if (it == freed.begin())
		return true;
	--it;
	if (addr < it->first + it->second.size)
	{
		fatal("memory", "use_after_free", "%s of %zu bytes at offset %zu of freed block #%llu (size %zu, freed by thread %d) by thread %d",
		      write ? "write" : "read", size, (size_t)(addr - it->first), (unsigned long long)it->second.id, it->second.size, it->second.freedBy,
		      tid());
	}
	return true;
}

static void* trackedMalloc(size_t n)
{
	void* p = __real_malloc(n ? n : 1);
	if (p && tracking && self && !inRt)
	{
		RtScope r;
		Block b{};
		b.size = n;
		b.id = ++allocId;
		b.freedBy = -1;
		live[(uintptr_t)p] = b;
	}
	return p;
}

static void trackedFree(void* p)
{
	if (!p)
		return;
	if (!tracking)
	{
		__real_free(p);
		return;
	}
	RtScope r;
	auto it = live.find((uintptr_t)p);
	if (it == live.end())
	{
		if (freed.count((uintptr_t)p))
			fatal("memory", "double_free", "double free of block #%llu by thread %d", (unsigned long long)freed[(uintptr_t)p].id, tid());
		__real_free(p);
		return;
	}
	Block b = it->second;
	live.erase(it);
	if (!self || inRt > 1)
	{
		__real_free(p);
		return;
	}
	b.freedBy = tid();
	if (g_hbOn && self->id < HB_MAXT)
		for (int t = 0; t < HB_MAXT; t++)
			if (t != self->id && b.lastAcc[t] > self->vc[t])
				fatal("memory", "destruction_race", "thread %d frees block #%llu (size %zu) while the last %s of it by thread %d is not ordered before the free (no happens-before edge: the reference-count operations involved do not synchronise)",
				      self->id, (unsigned long long)b.id, b.size, b.lastWrite[t] ? "write" : "read", t);
	memset(p, 0xDD, b.size);
	freed[(uintptr_t)p] = b;
	if (freedLo == 0 || (uintptr_t)p < freedLo)
		freedLo = (uintptr_t)p;
	if ((uintptr_t)p + b.size > freedHi)
		freedHi = (uintptr_t)p + b.size;
}

} // namespace sim

using namespace sim;

extern "C" {
void* __wrap_malloc(size_t n) { return trackedMalloc(n); }
void* __wrap_calloc(size_t a, size_t b)
{
	size_t n = a * b;
	void* p = trackedMalloc(n);
	if (p)
		memset(p, 0, n);
	return p;
}
void* __wrap_realloc(void* p, size_t n)
{
	if (!p)
		return trackedMalloc(n);
	if (!tracking)
		return __real_realloc(p, n);
	size_t old = 0;
	bool known = false;
	{
		RtScope r;
		auto it = live.find((uintptr_t)p);
		if (it != live.end())
		{
			old = it->second.size;
			known = true;
		}
		else if (freed.count((uintptr_t)p))
			fatal("memory", "realloc_after_free", "realloc of freed block by thread %d", tid());
	}
	if (!known)
		return __real_realloc(p, n);
	void* q = trackedMalloc(n);
	if (q)
	{
		memcpy(q, p, old < n ? old : n);
		trackedFree(p);
	}
	return q;
}
void __wrap_free(void* p) { trackedFree(p); }
}

void* operator new(size_t n)
{
	void* p = trackedMalloc(n);
	if (!p)
		throw std::bad_alloc();
	return p;
}
void* operator new[](size_t n)
{
	void* p = trackedMalloc(n);
	if (!p)
		throw std::bad_alloc();
	return p;
}
void* operator new(size_t n, const std::nothrow_t&) noexcept { return trackedMalloc(n); }
void* operator new[](size_t n, const std::nothrow_t&) noexcept { return trackedMalloc(n); }
void operator delete(void* p) noexcept { trackedFree(p); }
void operator delete[](void* p) noexcept { trackedFree(p); }
void operator delete(void* p, size_t) noexcept { trackedFree(p); }
void operator delete[](void* p, size_t) noexcept { trackedFree(p); }
