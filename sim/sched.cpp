// Seeded serialising scheduler: real threads, exactly one of which holds the run token.
#include "internal.h"
#include <linux/futex.h>
#include <sys/syscall.h>
#include <unistd.h>
#include <stdio.h>
#include <stdlib.h>
#include <string.h>
#include <limits.h>
#include <algorithm>
#include <deque>
#include <map>
#include <signal.h>

namespace sim {

__thread SThread* self = nullptr;
__thread int inRt = 0;

// ------------------------------------------------------------------ low level events
// Spinning before the futex wait only pays off when waiter and waker sit on different CPUs; the driver
// pins every worker process to one CPU (cross-CPU wake-ups are very expensive in this VM), so the default is 0.
int g_spin = 0;
void setSpin(int n) { g_spin = n; }
void evPost(std::atomic<int>& a)
{
	a.store(1, std::memory_order_release);
	syscall(SYS_futex, (int*)&a, FUTEX_WAKE_PRIVATE, 1, nullptr, nullptr, 0);
}
void evWait(std::atomic<int>& a)
{
	for (int i = 0; i < g_spin; i++)
	{
		int one = 1;
		if (a.compare_exchange_strong(one, 0, std::memory_order_acquire))
			return;
		__builtin_ia32_pause();
	}
	for (;;)
	{
		int one = 1;
		if (a.compare_exchange_strong(one, 0, std::memory_order_acquire))
			return;
		syscall(SYS_futex, (int*)&a, FUTEX_WAIT_PRIVATE, 0, nullptr, nullptr, 0);
	}
}

// ------------------------------------------------------------------ global run state
struct G
{
	bool active = false;
	SchedCfg cfg;
	Prng srng{1}, erng{1};
	std::deque<SThread> threads; // stable addresses
	uint64_t steps = 0, switches = 0;
	int64_t countdown = 1;
	bool needDecide = false;
	int64_t mono = 0, offset = 0;
	int64_t starved = 0;                 // clock advanced while somebody was runnable (ns)
	std::vector<uint64_t> changePoints;  // PCT
	size_t nextChange = 0;
	int64_t lowPrio = 0;
	size_t logPos = 0;
	RunResult* out = nullptr;
	uint64_t hash = 1469598103934665603ULL;
	uint64_t schedSig = 1469598103934665603ULL;
	uint64_t evSeq = 0;
	std::deque<std::string> tail;
	std::map<std::string, int64_t> knobs;
	bool nontrivial = false;
	uint64_t caseSig = 0;
	void (*hardHandler)(const char*, const char*, const char*) = nullptr;
} g;

static const int64_t STARVE_CAP_NS = 1000000000LL;

bool active() { return g.active; }
bool simThread() { return g.active && self != nullptr; }
int tid() { return self ? self->id : -1; }
uint64_t steps() { return g.steps; }
uint64_t eventSeq() { return g.evSeq; }
Prng& envRng() { return g.erng; }
double simNow() { return g.mono * 1e-9; }
int64_t monoNs() { return g.mono; }
int64_t realNs() { return EPOCH0_NS + g.mono + g.offset; }
int64_t realToMono(int64_t r) { return r - EPOCH0_NS - g.offset; }
void clockRead() { g.mono += 1000; }
void setHardFailHandler(void (*h)(const char*, const char*, const char*)) { g.hardHandler = h; }

static void hashBytes(uint64_t& h, const void* p, size_t n)
{
	const unsigned char* b = (const unsigned char*)p;
	for (size_t i = 0; i < n; i++)
	{
		h ^= b[i];
		h *= 1099511628211ULL;
	}
}

static void addHistory(const char* line)
{
	g.evSeq++;
	hashBytes(g.hash, line, strlen(line) + 1);
	char pre[48];
	snprintf(pre, sizeof pre, "#%llu t%d @%.6f ", (unsigned long long)g.evSeq, tid(), g.mono * 1e-9);
	g.tail.push_back(std::string(pre) + line);
	if (g.tail.size() > 60)
		g.tail.pop_front();
}

void event(const char* fmt, ...)
{
	if (!g.active)
		return;
	RtScope r;
	char buf[600];
	va_list ap;
	va_start(ap, fmt);
	vsnprintf(buf, sizeof buf, fmt, ap);
	va_end(ap);
	addHistory(buf);
}

void probe(const char* name)
{
	if (!g.active)
		return;
	RtScope r;
	g.out->probes[name]++;
}
void faultFired(const char* kind)
{
	if (!g.active)
		return;
	RtScope r;
	g.out->faults[kind]++;
	char buf[100];
	snprintf(buf, sizeof buf, "fault %s", kind);
	addHistory(buf);
}
void setNontrivial(bool b)
{
	RtScope r;
	g.nontrivial = b;
}
void mixCaseSig(uint64_t x)
{
	RtScope r;
	g.caseSig = mix64(g.caseSig, x);
}

void vfail(bool hard, const char* cls, const char* key, const char* fmt, va_list ap)
{
	RtScope r;
	char buf[1000];
	vsnprintf(buf, sizeof buf, fmt, ap);
	if (g.active)
	{
		char line[1200];
		snprintf(line, sizeof line, "FAIL %s %s %s", cls, key, buf);
		addHistory(line);
	}
	if (hard || !g.active)
	{
		if (g.hardHandler)
			g.hardHandler(cls, key, buf);
		else
			fprintf(stderr, "HARD FAILURE %s %s %s\n", cls, key, buf);
		// not fflush(0): a parked simulated thread may hold the lock of its own stream (it is inside a disk transfer)
		fflush(stdout);
		fflush(stderr);
		_exit(70);
	}
	for (auto& f : g.out->failures)
		if (f.cls == cls && f.key == key)
			return;
	if (g.out->failures.size() < 8)
		g.out->failures.push_back(Failure{cls, key, buf});
}

void fail(const char* cls, const char* key, const char* fmt, ...)
{
	va_list ap;
	va_start(ap, fmt);
	vfail(false, cls, key, fmt, ap);
	va_end(ap);
}
void fatal(const char* cls, const char* key, const char* fmt, ...)
{
	va_list ap;
	va_start(ap, fmt);
	vfail(true, cls, key, fmt, ap);
	va_end(ap);
	_exit(70);
}

std::string currentDecisions() { return g.out ? decisionsToString(g.out->decisions) : std::string(); }
uint64_t currentHash() { return g.hash; }
std::vector<std::string> currentTail() { return std::vector<std::string>(g.tail.begin(), g.tail.end()); }

void reportExternalCrash(const char* cls, const char* key, const char* msg)
{
	static bool once = false;
	if (once)
		return;
	once = true;
	inRt++;
	if (g.active)
	{
		char line[600];
		snprintf(line, sizeof line, "FAIL %s %s %s", cls, key, msg);
		addHistory(line);
	}
	if (g.hardHandler)
		g.hardHandler(cls, key, msg);
}

static void (*g_crashWriter)(const char* key) = nullptr;
void setCrashWriter(void (*w)(const char* key)) { g_crashWriter = w; }

// async-signal-safe: no allocation
size_t formatDecisions(char* buf, size_t n)
{
	size_t o = 0;
	if (!g.out || n == 0)
		return 0;
	uint64_t prev = 0;
	for (auto& d : g.out->decisions)
	{
		if (o + 40 >= n)
			break;
		o += (size_t)snprintf(buf + o, n - o, "%s%llu:%d", o ? " " : "", (unsigned long long)(d.step - prev), d.tid);
		prev = d.step;
	}
	buf[o] = 0;
	return o;
}

static void crashSignal(int sig)
{
	char key[32];
	snprintf(key, sizeof key, "signal_%d", sig);
	if (g_crashWriter)
		g_crashWriter(key);
	_exit(71);
}
void installCrashHandlers()
{
	static char altstack[65536];
	stack_t ss;
	ss.ss_sp = altstack;
	ss.ss_size = sizeof altstack;
	ss.ss_flags = 0;
	sigaltstack(&ss, nullptr);
	struct sigaction sa;
	memset(&sa, 0, sizeof sa);
	sa.sa_handler = crashSignal;
	sa.sa_flags = SA_ONSTACK | SA_RESETHAND;
	sigaction(SIGSEGV, &sa, nullptr);
	sigaction(SIGBUS, &sa, nullptr);
	sigaction(SIGFPE, &sa, nullptr);
	sigaction(SIGABRT, &sa, nullptr);
	sigaction(SIGILL, &sa, nullptr);
}

extern "C" int asl_verif_knob(const char* name, int dflt) { return knob(name, dflt); }

int knob(const char* name, int dflt)
{
	if (!g.active)
		return dflt;
	auto it = g.knobs.find(name);
	return it == g.knobs.end() ? dflt : (int)it->second;
}
void setKnobs(const Plan& plan)
{
	g.knobs.clear();
	for (auto& kv : plan.p)
		if (kv.first.compare(0, 5, "knob.") == 0)
			g.knobs[kv.first.substr(5)] = kv.second;
}

NoSched::NoSched()
{
	if (self)
		self->noSched++;
}
NoSched::~NoSched()
{
	if (self)
		self->noSched--;
}

// ------------------------------------------------------------------ happens-before clocks
bool g_hbOn = false;
static std::map<uintptr_t, HbClock> g_hbAtomics;
static std::map<const void*, HbClock> g_hbObjs;
void enableDestructionRaceOracle(bool on)
{
	g_hbOn = on && heapTracking();
}
void hbReset()
{
	g_hbOn = false;
	g_hbAtomics.clear();
	g_hbObjs.clear();
}
void hbAcquire(const HbClock& from)
{
	for (int i = 0; i < HB_MAXT; i++)
		if (from.c[i] > self->vc[i])
			self->vc[i] = from.c[i];
}
void hbRelease(HbClock& into, bool reset)
{
	for (int i = 0; i < HB_MAXT; i++)
		into.c[i] = reset ? self->vc[i] : std::max(into.c[i], self->vc[i]);
	if (self->id < HB_MAXT)
		self->vc[self->id]++;
}
void hbFork(SThread* child)
{
	if (!self || child->id >= HB_MAXT || self->id >= HB_MAXT)
		return;
	memcpy(child->vc, self->vc, sizeof child->vc);
	child->vc[child->id] = 1;
	self->vc[self->id]++;
}
void hbJoin(SThread* fin)
{
	if (!self || !g_hbOn)
		return;
	for (int i = 0; i < HB_MAXT; i++)
		if (fin->vc[i] > self->vc[i])
			self->vc[i] = fin->vc[i];
}
void hbAtomic(uintptr_t addr, bool acquire, bool release, bool isStore)
{
	if (!g_hbOn || !self || self->id >= HB_MAXT)
		return;
	RtScope r;
	HbClock& c = g_hbAtomics[addr];
	if (acquire)
		hbAcquire(c);
	if (release)
		hbRelease(c, isStore);
	else if (isStore)
		c = HbClock(); // a relaxed store breaks the release sequence
}
void hbSyncObj(const void* obj, bool acquire, bool release)
{
	if (!g_hbOn || !self || self->id >= HB_MAXT)
		return;
	HbClock& c = g_hbObjs[obj];
	if (acquire)
		hbAcquire(c);
	if (release)
		hbRelease(c, false);
}

// ------------------------------------------------------------------ thread table
SThread* threadByReal(pthread_t p)
{
	// The OS reuses thread identifiers: once a thread has been joined (or has finished detached) its identifier is free and
	// soon names a new thread. A stale copy of it must therefore resolve to the thread that owns the identifier now -
	// that is what pthread_detach / pthread_join / pthread_cancel on a stale handle hit in a real process.
	for (auto& t : g.threads)
		if (t.hasReal && pthread_equal(t.real, p) && !t.joined && !(t.detached && t.st == SThread::FINISHED))
			return &t;
	return nullptr;
}
SThread* threadById(int id)
{
	return id >= 0 && id < (int)g.threads.size() ? &g.threads[id] : nullptr;
}
int threadCount() { return (int)g.threads.size(); }

static void logDecision(int tid_)
{
	g.out->decisions.push_back(Decision{g.steps, tid_});
}

static void noteSwitch(SThread* next)
{
	g.switches++;
	unsigned char b[2] = {(unsigned char)next->id, (unsigned char)(g.steps & 0xff)};
	hashBytes(g.schedSig, b, 1);
	(void)b;
}

static void switchTo(SThread* next, bool selfFinished = false)
{
	SThread* me = self;
	if (next == me)
		return;
	noteSwitch(next);
	if (selfFinished)
	{
		evPost(next->wake);
		return;
	}
	evPost(next->wake);
	evWait(me->wake);
}

static int64_t nextTimer()
{
	int64_t m = -1;
	for (auto& t : g.threads)
		if (t.st == SThread::BLOCKED && t.deadline >= 0 && (m < 0 || t.deadline < m))
			m = t.deadline;
	return m;
}

static void fireTimers()
{
	for (auto& t : g.threads)
		if (t.st == SThread::BLOCKED && t.deadline >= 0 && t.deadline <= g.mono)
		{
			t.st = SThread::RUNNABLE;
			t.timedOut = true;
			t.deadline = -1;
			g.needDecide = true;
		}
}

static bool anyRunnable(SThread* except = nullptr)
{
	for (auto& t : g.threads)
		if (t.st == SThread::RUNNABLE && &t != except)
			return true;
	return false;
}

static void advanceClock(bool somebodyRunnable)
{
	int64_t nt = nextTimer();
	if (nt < 0)
		return;
	if (nt > g.mono)
	{
		if (somebodyRunnable)
			g.starved += nt - g.mono;
		g.mono = nt;
	}
	fireTimers();
}

static bool clockChoiceAllowed()
{
	int64_t nt = nextTimer();
	if (nt < 0)
		return false;
	if (g.cfg.relaxed)
		return true;
	int64_t d = nt > g.mono ? nt - g.mono : 0;
	return g.starved + d <= STARVE_CAP_NS;
}

static void dumpThreads(char* buf, size_t n)
{
	size_t o = 0;
	for (auto& t : g.threads)
	{
		if (o + 40 >= n)
			break;
		o += snprintf(buf + o, n - o, "t%d:%s/%d ", t.id, t.st == SThread::RUNNABLE ? "R" : t.st == SThread::BLOCKED ? "B" : "F", t.bk);
	}
}

// Picks the thread to run when the current one cannot continue (blocked or finished), or when
// a forced yield happens. `exclude` is not eligible (used by forced yields) unless nobody else is.
static SThread* pickNext(SThread* exclude)
{
	for (;;)
	{
		bool any = anyRunnable(exclude);
		if (!any && exclude && exclude->st == SThread::RUNNABLE && nextTimer() < 0)
			return exclude;
		if (!any)
		{
			if (nextTimer() < 0)
			{
				if (exclude && exclude->st == SThread::RUNNABLE)
					return exclude;
				char b[400];
				dumpThreads(b, sizeof b);
				fatal("deadlock", "no_runnable_thread", "no runnable thread and no timer: %s", b);
			}
			advanceClock(exclude && exclude->st == SThread::RUNNABLE);
			continue;
		}
		break;
	}
	std::vector<SThread*> cand;
	for (auto& t : g.threads)
		if (t.st == SThread::RUNNABLE && &t != exclude)
			cand.push_back(&t);

	if (g.cfg.replay)
	{
		if (g.logPos < g.cfg.log.size() && g.cfg.log[g.logPos].step == g.steps)
		{
			int want = g.cfg.log[g.logPos].tid;
			if (want == -1)
			{
				g.logPos++;
				logDecision(-1);
				advanceClock(true);
				return pickNext(exclude);
			}
			for (auto* c : cand)
				if (c->id == want)
				{
					g.logPos++;
					logDecision(want);
					return c;
				}
			if (!g.cfg.lenient)
				fatal("replay_diverged", "choice_not_enabled", "replay: thread %d not runnable at step %llu", want, (unsigned long long)g.steps);
			g.logPos++;
		}
		else if (!g.cfg.lenient)
			fatal("replay_diverged", "missing_decision", "replay: no logged decision for forced choice at step %llu", (unsigned long long)g.steps);
		logDecision(cand[0]->id);
		return cand[0];
	}

	// the clock as one more choice
	if (clockChoiceAllowed() && g.srng.below(8) == 0)
	{
		logDecision(-1);
		advanceClock(true);
		return pickNext(exclude);
	}
	SThread* c = nullptr;
	if (g.cfg.strategy == ST_PCT)
	{
		for (auto* x : cand)
			if (!c || x->prio > c->prio)
				c = x;
	}
	else
		c = cand[g.srng.below((uint32_t)cand.size())];
	logDecision(c->id);
	return c;
}

static int64_t geometric()
{
	int p = g.cfg.param < 1 ? 1 : g.cfg.param;
	if (p == 1)
		return 1;
	// number of schedule points until the next switch attempt, mean p
	double u = g.srng.unit();
	int64_t k = 1;
	double q = 1.0 - 1.0 / p;
	double acc = 1.0 / p, cum = acc;
	while (u > cum && k < 100000)
	{
		acc *= q;
		cum += acc;
		k++;
	}
	return k;
}

static void (*g_progressHook)() = nullptr;
void setProgressHook(void (*h)()) { g_progressHook = h; }

static void forcedStep()
{
	g.steps++;
	if ((g.steps & 1023) == 0 && g_progressHook)
		g_progressHook();
	if (g.steps > g.cfg.maxSteps)
	{
		char b[400];
		dumpThreads(b, sizeof b);
		fatal("liveness", "step_bound", "step bound %llu exceeded (sim time %.3f s): %s", (unsigned long long)g.cfg.maxSteps, g.mono * 1e-9, b);
	}
	if (g.mono * 1e-9 > g.cfg.maxSimTime)
	{
		char b[400];
		dumpThreads(b, sizeof b);
		fatal("liveness", "time_bound", "simulated time bound %.0f s exceeded: %s", g.cfg.maxSimTime, b);
	}
}

// voluntary preemption at a schedule point
static void decide()
{
	SThread* me = self;
	if (g.cfg.strategy == ST_PCT)
	{
		g.needDecide = false;
		SThread* best = nullptr;
		for (auto& t : g.threads)
			if (t.st == SThread::RUNNABLE && (!best || t.prio > best->prio))
				best = &t;
		if (clockChoiceAllowed() && g.srng.below(64) == 0)
		{
			logDecision(-1);
			advanceClock(true);
			best = nullptr;
			for (auto& t : g.threads)
				if (t.st == SThread::RUNNABLE && (!best || t.prio > best->prio))
					best = &t;
		}
		if (best && best != me)
		{
			logDecision(best->id);
			switchTo(best);
		}
		return;
	}
	// random walk
	g.needDecide = false;
	if (clockChoiceAllowed() && g.srng.below(16) == 0)
	{
		logDecision(-1);
		advanceClock(true);
	}
	std::vector<SThread*> cand;
	for (auto& t : g.threads)
		if (t.st == SThread::RUNNABLE && &t != me)
			cand.push_back(&t);
	if (cand.empty())
		return;
	SThread* c = cand[g.srng.below((uint32_t)cand.size())];
	logDecision(c->id);
	switchTo(c);
}

static void replaySp()
{
	while (g.logPos < g.cfg.log.size() && g.cfg.log[g.logPos].step < g.steps)
	{
		if (!g.cfg.lenient)
			fatal("replay_diverged", "skipped_decision", "replay: decision for step %llu was never reached (now %llu)",
			      (unsigned long long)g.cfg.log[g.logPos].step, (unsigned long long)g.steps);
		g.logPos++;
	}
	while (g.logPos < g.cfg.log.size() && g.cfg.log[g.logPos].step == g.steps)
	{
		int want = g.cfg.log[g.logPos].tid;
		g.logPos++;
		if (want == -1)
		{
			logDecision(-1);
			advanceClock(true);
			continue;
		}
		SThread* t = threadById(want);
		if (!t || t->st != SThread::RUNNABLE)
		{
			if (!g.cfg.lenient)
				fatal("replay_diverged", "choice_not_enabled", "replay: thread %d not runnable at step %llu", want, (unsigned long long)g.steps);
			continue;
		}
		logDecision(want);
		if (t != self)
		{
			switchTo(t);
			return;
		}
	}
}

void sp()
{
	if (!self || inRt || !g.active || self->noSched)
		return;
	RtScope r;
	forcedStep();
	if (g.cfg.replay)
	{
		replaySp();
		return;
	}
	switch (g.cfg.strategy)
	{
	case ST_RUN2BLOCK:
		return;
	case ST_RANDOM:
		if (--g.countdown > 0)
			return;
		g.countdown = geometric();
		decide();
		return;
	case ST_PCT:
		while (g.nextChange < g.changePoints.size() && g.changePoints[g.nextChange] <= g.steps)
		{
			self->prio = g.lowPrio--;
			g.nextChange++;
			g.needDecide = true;
		}
		if (g.needDecide)
			decide();
		return;
	}
}

static void forcedYield()
{
	// current thread is spinning: let somebody else run
	SThread* me = self;
	if (g.cfg.strategy == ST_PCT && !g.cfg.replay)
		me->prio = g.lowPrio--;
	SThread* n = pickNext(me);
	if (n != me)
		switchTo(n);
}

void spAccess(uintptr_t addr, bool write)
{
	if (!self || inRt || !g.active || self->noSched)
		return;
	if (!write && addr == self->lastRead)
	{
		if (++self->spin >= 64)
		{
			self->spin = 0;
			RtScope r;
			forcedStep();
			forcedYield();
			return;
		}
	}
	else
	{
		self->lastRead = write ? 0 : addr;
		self->spin = 0;
	}
	if (g.cfg.accessPoints)
		sp();
}

void yield()
{
	sp();
}

bool blockOn(int kind, const void* obj, int64_t deadlineMono, bool cancellable)
{
	RtScope r;
	SThread* me = self;
	forcedStep();
	me->st = SThread::BLOCKED;
	me->bk = kind;
	me->bobj = obj;
	me->deadline = deadlineMono;
	me->timedOut = false;
	me->cancellable = cancellable;
	me->cancelWoken = false;
	if (deadlineMono >= 0 && deadlineMono <= g.mono)
	{
		// already expired: still a forced decision point (others may run), but we are runnable
		me->st = SThread::RUNNABLE;
		me->timedOut = true;
		me->deadline = -1;
		SThread* n = pickNext(nullptr);
		switchTo(n);
		me->bk = BK_NONE;
		return true;
	}
	SThread* n = pickNext(nullptr);
	switchTo(n);
	me->bk = BK_NONE;
	me->bobj = nullptr;
	me->absReal = false;
	return me->timedOut;
}

void wakeThread(SThread* t)
{
	if (t->st == SThread::BLOCKED)
	{
		t->st = SThread::RUNNABLE;
		t->timedOut = false;
		t->deadline = -1;
		g.needDecide = true;
	}
}

void wakeAll(int kind, const void* obj)
{
	for (auto& t : g.threads)
		if (t.st == SThread::BLOCKED && t.bk == kind && (obj == nullptr || t.bobj == obj))
			wakeThread(&t);
}

int wakeOne(int kind, const void* obj)
{
	std::vector<SThread*> c;
	for (auto& t : g.threads)
		if (t.st == SThread::BLOCKED && t.bk == kind && t.bobj == obj)
			c.push_back(&t);
	if (c.empty())
		return -1;
	SThread* t = c[g.erng.below((uint32_t)c.size())];
	wakeThread(t);
	return t->id;
}

void clockJump(int64_t d)
{
	RtScope r;
	g.offset += d;
	for (auto& t : g.threads)
		if (t.st == SThread::BLOCKED && t.absReal)
			t.deadline = std::max<int64_t>(g.mono, realToMono(t.realDeadline));
	faultFired("clock_jump");
}

void clockJumpSeconds(double s) { clockJump((int64_t)(s * 1e9)); }

void sleepFor(double s)
{
	if (!simThread())
		return;
	sp();
	blockOn(BK_SLEEP, nullptr, g.mono + (int64_t)(s * 1e9), false);
}

// ------------------------------------------------------------------ thread life cycle
static void threadFinished()
{
	RtScope r;
	SThread* me = self;
	forcedStep();
	me->st = SThread::FINISHED;
	wakeAll(BK_JOIN, me);
	bool allDone = true;
	for (auto& t : g.threads)
		if (t.id != 0 && t.st != SThread::FINISHED)
			allDone = false;
	if (allDone)
		wakeAll(BK_JOINALL, nullptr);
	SThread* n = pickNext(nullptr);
	noteSwitch(n);
	self = nullptr;
	evPost(n->wake); // from here on this thread must not touch simulator state
}

struct Fin
{
	~Fin() { threadFinished(); }
};

static void* trampoline(void* p)
{
	SThread* t = (SThread*)p;
	self = t;
	inRt = 0;
	evWait(t->wake);
	t->started = true;
	void* ret;
	{
		Fin fin;
		ret = t->fn(t->arg);
		t->ret = ret;
	}
	return ret;
}

SThread* createThread(void* (*fn)(void*), void* arg)
{
	RtScope r;
	if (g.threads.size() >= 250)
		fatal("harness", "too_many_threads", "more than 250 simulated threads in one run");
	g.threads.emplace_back();
	SThread* t = &g.threads.back();
	t->id = (int)g.threads.size() - 1;
	t->fn = fn;
	t->arg = arg;
	t->st = SThread::RUNNABLE;
	if (g.cfg.strategy == ST_PCT)
		t->prio = 1000000 + (int64_t)g.srng.below(1000000);
	pthread_attr_t at;
	pthread_attr_init(&at);
	pthread_attr_setstacksize(&at, 2 * 1024 * 1024);
	int e = __real_pthread_create(&t->real, &at, trampoline, t);
	pthread_attr_destroy(&at);
	if (e)
		fatal("harness", "pthread_create", "real pthread_create failed: %d", e);
	t->hasReal = true;
	hbFork(t);
	g.needDecide = true;
	return t;
}

void checkCancel()
{
	SThread* me = self;
	if (me && me->cancelReq && !inRt)
	{
		me->cancelReq = false;
		event("thread cancelled");
		__real_pthread_exit(PTHREAD_CANCELED);
	}
}

// ------------------------------------------------------------------ harness tasks
struct TaskArg
{
	void (*f)(void*);
	void* a;
};
static void* taskTramp(void* p)
{
	TaskArg* ta = (TaskArg*)p;
	TaskArg c = *ta;
	delete ta;
	c.f(c.a);
	return nullptr;
}
TaskId spawn(void (*f)(void*), void* arg)
{
	sp();
	RtScope r;
	SThread* t = createThread(taskTramp, new TaskArg{f, arg});
	t->detached = true; // never pthread_join'ed by scenario code; joinTask waits on state
	return t->id;
}
void joinTask(TaskId id)
{
	sp();
	SThread* t = threadById(id);
	if (!t)
		return;
	while (t->st != SThread::FINISHED)
		blockOn(BK_JOIN, t, -1, false);
	hbJoin(t);
}
bool taskFinished(TaskId id)
{
	SThread* t = threadById(id);
	return !t || t->st == SThread::FINISHED;
}

// ------------------------------------------------------------------ the run
void runOne(const Plan& plan, const SchedCfg& cfg, ScenarioFn fn, RunResult& out)
{
	out = RunResult();
	g.cfg = cfg;
	g.srng = Prng(cfg.seed);
	g.erng = Prng(cfg.envSeed);
	g.threads.clear();
	g.steps = g.switches = 0;
	g.mono = 0;
	g.offset = 0;
	g.starved = 0;
	g.needDecide = false;
	g.logPos = 0;
	g.out = &out;
	g.hash = 1469598103934665603ULL;
	g.schedSig = 1469598103934665603ULL;
	g.evSeq = 0;
	g.tail.clear();
	g.nontrivial = false;
	g.caseSig = 0;
	g.lowPrio = 1000;
	g.changePoints.clear();
	g.nextChange = 0;
	setKnobs(plan);
	if (cfg.strategy == ST_PCT && !cfg.replay)
	{
		uint64_t k = cfg.pctSteps ? cfg.pctSteps : 1000;
		for (int i = 0; i + 1 < cfg.param; i++)
			g.changePoints.push_back(1 + g.srng.next() % k);
		std::sort(g.changePoints.begin(), g.changePoints.end());
	}
	g.countdown = (cfg.strategy == ST_RANDOM) ? geometric() : 1;
	syncReset();
	netReset();
	fsReset();
	hbReset();
	heapRunStart();

	g.threads.emplace_back();
	SThread* t0 = &g.threads.back();
	t0->id = 0;
	t0->st = SThread::RUNNABLE;
	t0->prio = 2000000;
	t0->real = pthread_self();
	t0->hasReal = true;
	t0->started = true;
	t0->vc[0] = 1;
	self = t0;
	inRt = 0;
	g.active = true;

	fn(plan);

	// wait for every other simulated thread
	{
		RtScope r;
		for (;;)
		{
			bool all = true;
			for (auto& t : g.threads)
				if (t.id != 0 && t.st != SThread::FINISHED)
					all = false;
			if (all)
				break;
			blockOn(BK_JOINALL, nullptr, -1, false);
		}
	}
	g.active = false;
	self = nullptr;
	for (auto& t : g.threads)
		if (t.id != 0 && t.hasReal)
			__real_pthread_join(t.real, nullptr);
	heapRunEnd();
	if (cfg.replay && !cfg.lenient && g.logPos != cfg.log.size())
	{
		out.failures.push_back(Failure{"replay_diverged", "unused_decisions", "replay ended with unused logged decisions"});
	}
	out.hash = g.hash;
	out.schedSig = g.schedSig;
	out.steps = g.steps;
	out.switches = g.switches;
	out.threads = g.threads.size();
	out.simTime = g.mono * 1e-9;
	out.nontrivial = g.nontrivial;
	out.caseSig = g.caseSig;
	out.tail.assign(g.tail.begin(), g.tail.end());
	g.threads.clear();
}

} // namespace sim
