// Flavour A: ASan owns the heap; the table is not used.
#include "internal.h"
namespace sim {
bool heapTracking() { return false; }
size_t heapLive() { return 0; }
void heapReset() {}
void heapRunStart() {}
void heapRunEnd() {}
bool heapCheckAccess(uintptr_t, size_t, bool) { return true; }
}
