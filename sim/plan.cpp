// Plan and decision-log (de)serialisation.
#include "sim.h"
#include "json.h"
#include <ctype.h>

namespace sim {

static std::string hexOf(const std::string& s)
{
	static const char* d = "0123456789abcdef";
	std::string o;
	o.reserve(s.size() * 2);
	for (unsigned char c : s)
	{
		o += d[c >> 4];
		o += d[c & 15];
	}
	return o;
}
static std::string unhex(const std::string& h)
{
	std::string o;
	for (size_t i = 0; i + 1 < h.size(); i += 2)
		o += (char)strtol(h.substr(i, 2).c_str(), 0, 16);
	return o;
}

uint64_t planHash(const Plan& p)
{
	uint64_t h = 0x12345;
	for (char c : p.scenario)
		h = mix64(h, (unsigned char)c);
	for (auto& kv : p.p)
	{
		for (char c : kv.first)
			h = mix64(h, (unsigned char)c);
		h = mix64(h, (uint64_t)kv.second);
	}
	for (auto& op : p.ops)
	{
		for (char c : op.k)
			h = mix64(h, (unsigned char)c);
		for (auto a : op.a)
			h = mix64(h, (uint64_t)a);
		uint64_t sh = 1469598103934665603ULL;
		for (unsigned char c : op.s)
		{
			sh ^= c;
			sh *= 1099511628211ULL;
		}
		h = mix64(h, sh ^ op.s.size());
	}
	return h;
}

JVal planToJVal(const Plan& p)
{
	JVal j = JVal::obj();
	j.set("scenario", p.scenario);
	JVal pp = JVal::obj();
	for (auto& kv : p.p)
		pp.set(kv.first, JVal((int64_t)kv.second));
	j.set("p", pp);
	JVal ops = JVal::arr();
	for (auto& op : p.ops)
	{
		JVal o = JVal::obj();
		o.set("k", op.k);
		JVal a = JVal::arr();
		for (auto v : op.a)
			a.push(JVal((int64_t)v));
		o.set("a", a);
		if (!op.s.empty())
		{
			bool printable = true;
			for (unsigned char c : op.s)
				if (c < 0x20 || c >= 0x7f || c == '"' || c == '\\')
					printable = false;
			if (printable)
				o.set("t", op.s);
			else
				o.set("x", hexOf(op.s));
		}
		ops.push(o);
	}
	j.set("ops", ops);
	return j;
}

bool planFromJVal(const JVal& j, Plan& out)
{
	if (j.t != JVal::OBJ)
		return false;
	out = Plan();
	out.scenario = j.gets("scenario");
	if (const JVal* pp = j.get("p"))
		for (auto& kv : pp->o)
			out.p[kv.first] = kv.second.i;
	if (const JVal* ops = j.get("ops"))
		for (auto& o : ops->a)
		{
			Op op;
			op.k = o.gets("k");
			if (const JVal* a = o.get("a"))
				for (auto& v : a->a)
					op.a.push_back(v.i);
			if (o.get("t"))
				op.s = o.gets("t");
			else if (o.get("x"))
				op.s = unhex(o.gets("x"));
			out.ops.push_back(op);
		}
	return true;
}

std::string planToJson(const Plan& p) { return planToJVal(p).str(); }
bool planFromJson(const std::string& text, size_t& pos, Plan& out)
{
	JVal j;
	if (!JVal::parse(text, pos, j))
		return false;
	return planFromJVal(j, out);
}

std::string planBrief(const Plan& p, size_t maxlen)
{
	std::string s = p.scenario + "{";
	for (auto& kv : p.p)
		s += kv.first + "=" + std::to_string(kv.second) + " ";
	s += "}";
	for (auto& op : p.ops)
	{
		s += " " + op.k + "(";
		for (size_t i = 0; i < op.a.size(); i++)
			s += (i ? "," : "") + std::to_string(op.a[i]);
		if (!op.s.empty())
		{
			s += op.a.empty() ? "" : ",";
			std::string t;
			for (unsigned char c : op.s.substr(0, 24))
				t += (c >= 0x20 && c < 0x7f && c != '"' && c != '\\') ? (char)c : '.';
			s += "'" + t + (op.s.size() > 24 ? "'+" + std::to_string(op.s.size() - 24) : "'");
		}
		s += ")";
		if (s.size() > maxlen)
		{
			s += " ...";
			break;
		}
	}
	return s;
}

std::string decisionsToString(const std::vector<Decision>& d)
{
	std::string s;
	uint64_t prev = 0;
	for (auto& x : d)
	{
		if (!s.empty())
			s += ' ';
		s += std::to_string(x.step - prev) + ":" + std::to_string(x.tid);
		prev = x.step;
	}
	return s;
}
std::vector<Decision> decisionsFromString(const std::string& s)
{
	std::vector<Decision> d;
	uint64_t prev = 0;
	size_t p = 0;
	while (p < s.size())
	{
		while (p < s.size() && s[p] == ' ')
			p++;
		if (p >= s.size())
			break;
		char* e;
		uint64_t delta = strtoull(&s[p], &e, 10);
		p = (size_t)(e - s.c_str());
		if (p >= s.size() || s[p] != ':')
			break;
		p++;
		long t = strtol(&s[p], &e, 10);
		p = (size_t)(e - s.c_str());
		prev += delta;
		d.push_back(Decision{prev, (int)t});
	}
	return d;
}

} // namespace sim
