// Simulated stream network (TCP and Unix sockets) — harness-side interface.
#pragma once
#include "sim.h"
#include <string>

namespace sim {
namespace net {

bool isSimFd(int fd);

// Raw peers written in the harness (they use the same endpoints as the wrapped libc calls).
int rawConnectTcp(int port);                 // returns fd or -1 (errno set)
int rawConnectUnix(const char* path);
// Sends all bytes (blocks on back-pressure). Returns bytes accepted, or -1 when the peer is gone.
int rawSend(int fd, const void* data, size_t n);
// Sends the bytes as one segment regardless of short_send settings.
int rawSendSegment(int fd, const void* data, size_t n);
int rawShutdownWrite(int fd); // half-close: FIN behind what was sent, the descriptor keeps receiving
// Reads up to max bytes, waiting at most timeout simulated seconds (<0: forever).
// Returns >0 bytes, 0 on EOF, -1 on reset, -2 on timeout.
int rawRecv(int fd, void* buf, size_t max, double timeout);
// Reads until EOF/reset/timeout/limit; appends to out. Returns the last rawRecv code (0, -1, -2) or 1 if limit reached.
int rawRecvAll(int fd, std::string& out, size_t limit, double timeout);
void rawClose(int fd);
void rawReset(int fd);                       // abortive close (RST)

// statistics of the current run
struct Stats
{
	uint64_t connects = 0, accepts = 0, closes = 0, bytesSent = 0, bytesRead = 0, fragReads = 0, shortSends = 0, blockedSends = 0, eofReads = 0;
};
const Stats& stats();
// history of accept events: number of accept() calls that returned a connection
uint64_t acceptCount();
// bytes that entered the pipe towards endpoint `fd`'s peer so far / in total per connection ordinal
int connOrdinalOfFd(int fd);
// capture of everything sent on a connection, per direction (0: connector->acceptor, 1: acceptor->connector)
const std::string& captured(int connOrdinal, int dir);
void enableCapture(bool on);
bool fdOpen(int fd);
int openFdCount();            // simulated descriptors currently open (listeners, connections, pending)
int openConnCount();          // ... connected endpoints only
int openAcceptedCount();      // ... connected endpoints on the accepting (server) side only

} // namespace net
} // namespace sim
