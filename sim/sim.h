// Deterministic simulator for aslze/asl — public interface used by wrappers, scenarios, driver.
// Everything here is compiled WITHOUT instrumentation (no -fsanitize=*), see Makefile.
#pragma once
#include <stdint.h>
#include <stddef.h>
#include <stdarg.h>
#include <string>
#include <vector>
#include <map>

namespace sim {

// ---------------------------------------------------------------- PRNG (splitmix64)
inline uint64_t splitmix(uint64_t& s)
{
	uint64_t z = (s += 0x9e3779b97f4a7c15ULL);
	z = (z ^ (z >> 30)) * 0xbf58476d1ce4e5b9ULL;
	z = (z ^ (z >> 27)) * 0x94d049bb133111ebULL;
	return z ^ (z >> 31);
}
inline uint64_t mix64(uint64_t a, uint64_t b)
{
	uint64_t s = a ^ (b * 0x9e3779b97f4a7c15ULL + 0x7f4a7c15ULL);
	splitmix(s);
	return splitmix(s);
}
struct Prng
{
	uint64_t s;
	explicit Prng(uint64_t seed = 1) : s(seed) {}
	uint64_t next() { return splitmix(s); }
	// uniform in [0,n)
	uint32_t below(uint32_t n) { return n <= 1 ? 0 : (uint32_t)((next() >> 11) % n); }
	int64_t range(int64_t lo, int64_t hi) { return hi <= lo ? lo : lo + (int64_t)((next() >> 11) % (uint64_t)(hi - lo + 1)); }
	double unit() { return (double)(next() >> 11) / 9007199254740992.0; }
	bool coin(double p) { return unit() < p; }
	template <class T> const T& pick(const std::vector<T>& v) { return v[below((uint32_t)v.size())]; }
};

// ---------------------------------------------------------------- plans
struct Op
{
	std::string k;            // kind
	std::vector<int64_t> a;   // integer arguments
	std::string s;            // byte-string argument (may contain any byte)
	int64_t arg(size_t i, int64_t d = 0) const { return i < a.size() ? a[i] : d; }
};
struct Plan
{
	std::string scenario;
	std::map<std::string, int64_t> p; // scenario parameters, knobs, enabled fault kinds
	std::vector<Op> ops;
	int64_t get(const char* k, int64_t d = 0) const
	{
		auto it = p.find(k);
		return it == p.end() ? d : it->second;
	}
};
uint64_t planHash(const Plan& p);
std::string planToJson(const Plan& p);
bool planFromJson(const std::string& text, size_t& pos, Plan& out);
std::string planBrief(const Plan& p, size_t maxlen = 400);

// ---------------------------------------------------------------- schedule
enum Strategy { ST_RUN2BLOCK = 0, ST_RANDOM = 1, ST_PCT = 2 };
struct Decision
{
	uint64_t step;
	int tid; // -1: advance the clock to the next timer
};
struct SchedCfg
{
	int strategy = ST_RANDOM;
	int param = 4;          // RANDOM: switch probability 1/param ; PCT: depth
	uint64_t seed = 1;      // schedule PRNG
	uint64_t envSeed = 1;   // environment PRNG (fragment sizes, wake order, coins)
	uint64_t pctSteps = 0;  // PCT: step estimate from pilot run
	bool relaxed = false;   // lift the starvation cap (stall fault)
	uint64_t maxSteps = 400000;
	double maxSimTime = 600.0;
	bool accessPoints = true; // flavour T: instrumented accesses are schedule points
	// replay
	bool replay = false;
	bool lenient = false;
	std::vector<Decision> log;
};
std::string decisionsToString(const std::vector<Decision>& d);
std::vector<Decision> decisionsFromString(const std::string& s);

// ---------------------------------------------------------------- run results
struct Failure
{
	std::string cls;  // violation class
	std::string key;  // discriminating fact (for known-finding matching)
	std::string msg;
};
struct RunResult
{
	std::vector<Failure> failures;
	uint64_t hash = 0;        // FNV over the event history
	uint64_t schedSig = 0;    // signature of the context-switch sequence
	uint64_t steps = 0, switches = 0, threads = 0;
	double simTime = 0;
	bool nontrivial = false;
	uint64_t caseSig = 0;     // what makes this case distinct
	std::map<std::string, uint64_t> faults, probes;
	std::vector<Decision> decisions;
	std::vector<std::string> tail; // last history lines
};

typedef void (*ScenarioFn)(const Plan&);

// Runs fn(plan) as simulated thread 0 on the calling thread; returns when every simulated thread finished.
// Hard failures (memory error, liveness bound, deadlock) do not return: they are reported through
// the hard-failure callback and the process exits with code 70.
void runOne(const Plan& plan, const SchedCfg& cfg, ScenarioFn fn, RunResult& out);
void setHardFailHandler(void (*h)(const char* cls, const char* key, const char* msg));

// ---------------------------------------------------------------- in-run services (callable from scenarios)
bool active();
void fail(const char* cls, const char* key, const char* fmt, ...) __attribute__((format(printf, 3, 4)));
[[noreturn]] void fatal(const char* cls, const char* key, const char* fmt, ...) __attribute__((format(printf, 3, 4)));
void event(const char* fmt, ...) __attribute__((format(printf, 1, 2)));
void probe(const char* name);
void faultFired(const char* kind);
void setNontrivial(bool b = true);
void mixCaseSig(uint64_t x);
Prng& envRng();
int tid();
uint64_t steps();
uint64_t eventSeq();
double simNow();             // seconds since run start (mono)
void yield();                // explicit schedule point
void sleepFor(double s);     // simulated sleep
void clockJumpSeconds(double s); // wall-clock jump fault (timers on the monotonic clock are unaffected)
int knob(const char* name, int dflt);

// state of the run in progress (for crash / hard-failure reports)
std::string currentDecisions();
uint64_t currentHash();
std::vector<std::string> currentTail();
void setCrashWriter(void (*w)(const char* key)); // must be async-signal-safe
size_t formatDecisions(char* buf, size_t n);       // async-signal-safe rendering of the decision log
void setSpin(int iterations);
void setProgressHook(void (*h)()); // called every 1024 schedule points (liveness watchdog of the driver)
void installCrashHandlers();  // SIGSEGV/SIGBUS/SIGABRT/SIGFPE -> hard failure report
void reportExternalCrash(const char* cls, const char* key, const char* msg); // e.g. sanitizer death callback

// harness threads
typedef int TaskId;
TaskId spawn(void (*f)(void*), void* arg);
void joinTask(TaskId t);
bool taskFinished(TaskId t);

// happens-before oracle for "no access races with its destruction": a free() of a heap block that is not ordered after
// every other thread's last access to it (by mutexes, joins, semaphores or atomics WITH their memory orders) is a violation
void enableDestructionRaceOracle(bool on);

// heap table (flavour T only; no-ops otherwise)
size_t heapLive();           // tracked live blocks allocated during this run
bool heapTracking();

// uninstrumented helpers for oracles
struct NoSched { NoSched(); ~NoSched(); }; // suppress schedule points in scope (oracle code)

} // namespace sim
