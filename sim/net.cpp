// In-process stream network: stub for the kernel's TCP and Unix-socket stack.
#include "internal.h"
#include "net.h"
#include <errno.h>
#include <fcntl.h>
#include <unistd.h>
#include <string.h>
#include <stdlib.h>
#include <stdarg.h>
#include <sys/socket.h>
#include <sys/un.h>
#include <sys/ioctl.h>
#include <sys/select.h>
#include <netinet/in.h>
#include <arpa/inet.h>
#include <netdb.h>
#include <deque>
#include <set>
#include <algorithm>

extern "C" {
int __real_socket(int, int, int);
int __real_setsockopt(int, int, int, const void*, socklen_t);
int __real_bind(int, const struct sockaddr*, socklen_t);
int __real_listen(int, int);
int __real_connect(int, const struct sockaddr*, socklen_t);
int __real_accept(int, struct sockaddr*, socklen_t*);
ssize_t __real_send(int, const void*, size_t, int);
ssize_t __real_recv(int, void*, size_t, int);
ssize_t __real_read(int, void*, size_t);
ssize_t __real_write(int, const void*, size_t);
int __real_ioctl(int, unsigned long, void*);
int __real_select(int, fd_set*, fd_set*, fd_set*, struct timeval*);
int __real_close(int);
int __real_getpeername(int, struct sockaddr*, socklen_t*);
int __real_getsockname(int, struct sockaddr*, socklen_t*);
int __real_getaddrinfo(const char*, const char*, const struct addrinfo*, struct addrinfo**);
void __real_freeaddrinfo(struct addrinfo*);
int __real_shutdown(int, int);
}

namespace sim {
bool fsUnlinkHook(const char* path, int* rc); // fs.cpp

namespace net {

static const int FD0 = 700, FDN = 300;

struct Seg
{
	std::string data;
	size_t off = 0;
	int64_t arrival = 0;
};
struct Pipe // bytes travelling towards the owner endpoint
{
	std::deque<Seg> q;
	size_t buffered = 0;
	bool writerClosed = false;
	bool reset = false;
	int64_t lastArrival = 0;
};
struct Ep
{
	enum St { FREE, NEW, BOUND, LISTEN, CONN, PENDING } st = FREE;
	int family = AF_INET;
	int port = 0;
	std::string path;
	int peer = -1;        // index of peer endpoint (may be closed meanwhile: check gen)
	uint64_t peerGen = 0;
	uint64_t gen = 0;
	Pipe in;
	int backlog = 0;
	std::deque<int> pending;
	bool peerGone = false;  // peer closed (our sends fail after that)
	bool sentIntoClosed = false; // TCP: the first send after the peer's graceful close is still accepted (the RST comes back afterwards)
	bool gotRst = false;
	int conn = -1, side = 0;
	int64_t latency = 0;
	int peerPort = 0;
	std::string peerPath;
	bool accepted = false;
};

static Ep eps[FDN];
static uint64_t genCounter = 0;
static bool reserved = false;
static Stats st;
static uint64_t nAccepts = 0;
static int connCounter = 0;
static int ephemeral = 40000;
static std::map<std::string, int> unixNodes; // path -> listener index
static bool capture = false;
static std::vector<uint64_t> connBytes; // bytes sent on a connection, both directions (reset fault)
static std::vector<std::string> cap[2];
static std::set<void*> ourAddrinfo;

static void reserveFds()
{
	if (reserved)
		return;
	int nul = open("/dev/null", O_RDONLY);
	for (int i = 0; i < FDN; i++)
		dup2(nul, FD0 + i);
	__real_close(nul);
	reserved = true;
}

bool isSimFd(int fd) { return fd >= FD0 && fd < FD0 + FDN && eps[fd - FD0].st != Ep::FREE; }
static bool inRange(int fd) { return fd >= FD0 && fd < FD0 + FDN; }
static Ep* E(int fd) { return isSimFd(fd) ? &eps[fd - FD0] : nullptr; }
const Stats& stats() { return st; }
uint64_t acceptCount() { return nAccepts; }
void enableCapture(bool on) { capture = on; }
const std::string& captured(int c, int dir)
{
	static std::string empty;
	return c >= 0 && c < (int)cap[dir].size() ? cap[dir][c] : empty;
}
int connOrdinalOfFd(int fd)
{
	Ep* e = E(fd);
	return e ? e->conn : -1;
}
bool fdOpen(int fd) { return isSimFd(fd); }
int openFdCount()
{
	int n = 0;
	for (int i = 0; i < FDN; i++)
		if (eps[i].st != Ep::FREE)
			n++;
	return n;
}
int openAcceptedCount()
{
	int n = 0;
	for (int i = 0; i < FDN; i++)
		if (eps[i].st == Ep::CONN && eps[i].accepted)
			n++;
	return n;
}
int openConnCount()
{
	int n = 0;
	for (int i = 0; i < FDN; i++)
		if (eps[i].st == Ep::CONN)
			n++;
	return n;
}

static int allocFd()
{
	reserveFds();
	for (int i = 0; i < FDN; i++)
		if (eps[i].st == Ep::FREE)
		{
			eps[i] = Ep();
			eps[i].st = Ep::NEW;
			eps[i].gen = ++genCounter;
			return FD0 + i;
		}
	errno = EMFILE;
	return -1;
}

static Ep* peerOf(Ep* e)
{
	if (e->peer < 0)
		return nullptr;
	Ep* p = &eps[e->peer];
	if (p->st == Ep::FREE || p->gen != e->peerGen)
		return nullptr;
	return p;
}

static size_t arrived(Ep* e)
{
	size_t n = 0;
	int64_t now = monoNs();
	for (auto& s : e->in.q)
	{
		if (s.arrival > now)
			break;
		n += s.data.size() - s.off;
	}
	return n;
}
static int64_t nextArrival(Ep* e)
{
	int64_t now = monoNs();
	for (auto& s : e->in.q)
		if (s.arrival > now)
			return s.arrival;
	return -1;
}
static bool atEof(Ep* e) { return e->in.q.empty() && (e->in.writerClosed || e->in.reset); }
static bool readable(Ep* e)
{
	if (e->st == Ep::LISTEN)
		return !e->pending.empty();
	if (e->st == Ep::CONN)
		return arrived(e) > 0 || atEof(e);
	return false;
}

static void changed() { wakeAll(BK_NET, nullptr); }

void reset_()
{
	for (int i = 0; i < FDN; i++)
		eps[i] = Ep();
	st = Stats();
	nAccepts = 0;
	connCounter = 0;
	ephemeral = 40000;
	unixNodes.clear();
	cap[0].clear();
	cap[1].clear();
	connBytes.clear();
	capture = false;
	genCounter = 0;
}

static int64_t drawLatency()
{
	int maxus = knob("net.lat_us", 0);
	if (maxus <= 0)
		return 0;
	return (int64_t)envRng().below((uint32_t)maxus + 1) * 1000;
}

static size_t sndCap() { int c = knob("net.sndbuf", 0); return c > 0 ? (size_t)c : 212992; }

// ---- operations (called with inRt held)
static int doConnect(int fd, int family, int port, const std::string& path)
{
	Ep* e = E(fd);
	if (!e)
	{
		errno = EBADF;
		return -1;
	}
	if (e->st == Ep::CONN)
	{
		errno = EISCONN;
		return -1;
	}
	int li = -1;
	if (family == AF_UNIX)
	{
		auto it = unixNodes.find(path);
		if (it == unixNodes.end())
		{
			errno = ENOENT;
			return -1;
		}
		li = it->second;
		if (li < 0 || eps[li].st != Ep::LISTEN)
		{
			errno = ECONNREFUSED;
			return -1;
		}
	}
	else
	{
		for (int i = 0; i < FDN; i++)
			if (eps[i].st == Ep::LISTEN && eps[i].family == AF_INET && eps[i].port == port)
				li = i;
		if (li < 0)
		{
			errno = ECONNREFUSED;
			return -1;
		}
	}
	uint64_t lgen = eps[li].gen;
	int64_t lat = drawLatency();
	if (lat > 0)
	{
		int64_t dl = monoNs() + 2 * lat;
		while (monoNs() < dl)
			blockOn(BK_SLEEP, nullptr, dl, false);
	}
	for (;;)
	{
		Ep* l = &eps[li];
		if (l->st != Ep::LISTEN || l->gen != lgen)
		{
			errno = ECONNREFUSED;
			return -1;
		}
		if ((int)l->pending.size() <= l->backlog)
			break;
		st.blockedSends++;
		blockOn(BK_NET, nullptr, -1, false);
		e = E(fd);
		if (!e)
		{
			errno = EBADF;
			return -1;
		}
	}
	Ep* l = &eps[li];
	int afd = allocFd();
	if (afd < 0)
	{
		errno = ECONNREFUSED;
		return -1;
	}
	Ep* a = &eps[afd - FD0];
	e = E(fd);
	a->st = Ep::PENDING;
	a->family = family;
	a->port = l->port;
	a->path = l->path;
	a->accepted = true;
	a->peer = fd - FD0;
	a->peerGen = e->gen;
	a->conn = e->conn = connCounter++;
	a->side = 1;
	e->side = 0;
	a->latency = e->latency = lat;
	e->st = Ep::CONN;
	e->family = family;
	e->peer = afd - FD0;
	e->peerGen = a->gen;
	if (family == AF_INET)
	{
		if (!e->port)
			e->port = ephemeral++;
		a->peerPort = e->port;
		e->peerPort = l->port;
	}
	else
		e->peerPath = l->path;
	if (capture)
	{
		cap[0].resize(connCounter);
		cap[1].resize(connCounter);
	}
	l->pending.push_back(afd - FD0);
	st.connects++;
	event("net connect c%d %s", e->conn, family == AF_UNIX ? "unix" : "tcp");
	changed();
	return 0;
}

static int doAccept(int fd, bool cancellable)
{
	for (;;)
	{
		Ep* l = E(fd);
		if (!l || l->st != Ep::LISTEN)
		{
			errno = l ? EINVAL : EBADF;
			return -1;
		}
		if (!l->pending.empty())
		{
			int ai = l->pending.front();
			l->pending.pop_front();
			Ep* a = &eps[ai];
			a->st = Ep::CONN;
			nAccepts++;
			st.accepts++;
			event("net accept c%d", a->conn);
			changed();
			return FD0 + ai;
		}
		blockOn(BK_NET, nullptr, -1, cancellable);
		if (cancellable && self->cancelReq)
		{
			errno = EINTR;
			return -1;
		}
	}
}

static ssize_t doSend(int fd, const void* data, size_t n, bool whole)
{
	if (n == 0)
		return 0;
	for (;;)
	{
		Ep* e = E(fd);
		if (!e)
		{
			errno = EBADF;
			return -1;
		}
		if (e->st != Ep::CONN)
		{
			errno = ENOTCONN;
			return -1;
		}
		Ep* p = peerOf(e);
		if (e->gotRst || e->in.reset)
		{
			errno = ECONNRESET;
			return -1;
		}
		if (!p || e->peerGone)
		{
			if (e->family == AF_INET && !e->sentIntoClosed)
			{
				// as the kernel does: the data is accepted, the peer answers with RST, later sends fail
				e->sentIntoClosed = true;
				st.bytesSent += n;
				return (ssize_t)n;
			}
			errno = EPIPE;
			return -1;
		}
		size_t capy = sndCap();
		if (p->in.buffered >= capy && !whole)
		{
			st.blockedSends++;
			probe("net_send_blocked");
			blockOn(BK_NET, nullptr, -1, false);
			continue;
		}
		size_t k = whole ? n : std::min(n, capy - p->in.buffered);
		if (!whole && k > 1 && knob("net.short", 0) > 0 && (int)envRng().below(100) < knob("net.short", 0))
		{
			k = 1 + envRng().below((uint32_t)k);
			if (k < n)
			{
				st.shortSends++;
				faultFired("short_send");
			}
		}
		Seg s;
		s.data.assign((const char*)data, k);
		int64_t jitter = e->latency > 0 ? (int64_t)envRng().below(1000) * 1000 : 0;
		s.arrival = std::max(p->in.lastArrival, monoNs() + e->latency + jitter);
		p->in.lastArrival = s.arrival;
		p->in.buffered += k;
		// a byte stream has no message boundaries: bytes that arrive together are one run of bytes
		if (!p->in.q.empty() && p->in.q.back().arrival == s.arrival && p->in.q.back().data.size() < (1u << 20))
			p->in.q.back().data.append(s.data);
		else
			p->in.q.push_back(std::move(s));
		st.bytesSent += k;
		if (capture && e->conn >= 0)
			cap[e->side][e->conn].append((const char*)data, k);
		// fault: connection #net.reset_conn is reset once net.reset_after bytes have travelled on it (either direction)
		if (e->conn >= 0 && knob("net.reset_conn", -1) == e->conn)
		{
			if ((int)connBytes.size() <= e->conn)
				connBytes.resize((size_t)e->conn + 1, 0);
			connBytes[(size_t)e->conn] += k;
			if (connBytes[(size_t)e->conn] >= (uint64_t)knob("net.reset_after", 0) && !e->gotRst)
			{
				faultFired("reset");
				e->gotRst = true;
				e->in.reset = true;
				e->peerGone = true;
				p->gotRst = true;
				p->in.reset = true;
				p->peerGone = true;
				// what was in flight is lost with the connection
				e->in.q.clear();
				e->in.buffered = 0;
				p->in.q.clear();
				p->in.buffered = 0;
			}
		}
		changed();
		return (ssize_t)k;
	}
}

// timeoutNs < 0: forever. returns >0, 0 EOF, -1 error (errno), -2 timeout
static ssize_t doRead(int fd, void* buf, size_t n, int64_t timeoutNs, bool cancellable)
{
	int64_t dl = timeoutNs < 0 ? -1 : monoNs() + timeoutNs;
	for (;;)
	{
		Ep* e = E(fd);
		if (!e)
		{
			errno = EBADF;
			return -1;
		}
		if (e->st != Ep::CONN)
		{
			errno = ENOTCONN;
			return -1;
		}
		size_t av = arrived(e);
		if (av > 0)
		{
			if (n == 0)
				return 0;
			size_t k = std::min(n, av);
			if (k > 1 && knob("net.frag", 0) > 0 && (int)envRng().below(100) < knob("net.frag", 0))
			{
				k = 1 + envRng().below((uint32_t)k);
				st.fragReads++;
				faultFired("frag_read");
			}
			size_t done = 0;
			char* out = (char*)buf;
			while (done < k)
			{
				Seg& s = e->in.q.front();
				size_t m = std::min(k - done, s.data.size() - s.off);
				memcpy(out + done, s.data.data() + s.off, m);
				s.off += m;
				done += m;
				if (s.off == s.data.size())
					e->in.q.pop_front();
			}
			e->in.buffered -= k;
			st.bytesRead += k;
			changed();
			return (ssize_t)k;
		}
		if (e->in.q.empty())
		{
			if (e->in.reset)
			{
				errno = ECONNRESET;
				return -1;
			}
			if (e->in.writerClosed)
			{
				st.eofReads++;
				return 0;
			}
		}
		int64_t d = dl;
		int64_t na = nextArrival(e);
		if (na >= 0 && (d < 0 || na < d))
			d = na;
		if (dl >= 0 && monoNs() >= dl)
			return -2;
		blockOn(BK_NET, nullptr, d, cancellable);
		if (cancellable && self->cancelReq)
		{
			errno = EINTR;
			return -1;
		}
	}
}

static int doClose(int fd, bool abortive)
{
	Ep* e = E(fd);
	if (!e)
	{
		errno = EBADF;
		return -1;
	}
	if (e->st == Ep::LISTEN)
	{
		for (int ai : e->pending)
		{
			Ep* a = &eps[ai];
			Ep* c = peerOf(a);
			if (c)
			{
				c->in.reset = true;
				c->peerGone = true;
			}
			*a = Ep();
		}
		if (e->family == AF_UNIX)
		{
			// the node stays in the file system until unlinked, but nobody listens any more
			auto it = unixNodes.find(e->path);
			if (it != unixNodes.end() && it->second == fd - FD0)
				it->second = -1;
		}
	}
	else if (e->st == Ep::CONN)
	{
		Ep* p = peerOf(e);
		bool unread = e->in.buffered > 0;
		if (p)
		{
			p->peerGone = true;
			if (abortive || unread)
			{
				// RST: the peer's later sends fail, its reads drain what arrived and then fail
				p->in.reset = true;
				p->gotRst = true;
			}
			else
				p->in.writerClosed = true;
		}
		event("net close c%d s%d%s", e->conn, e->side, (abortive || unread) ? " rst" : "");
	}
	st.closes++;
	*e = Ep();
	changed();
	return 0;
}

// ---------------------------------------------------------------- raw peer API
int rawConnectTcp(int port)
{
	sp();
	RtScope r;
	int fd = allocFd();
	if (fd < 0)
		return -1;
	if (doConnect(fd, AF_INET, port, "") != 0)
	{
		int e = errno;
		eps[fd - FD0] = Ep();
		errno = e;
		return -1;
	}
	return fd;
}
int rawConnectUnix(const char* path)
{
	sp();
	RtScope r;
	int fd = allocFd();
	if (fd < 0)
		return -1;
	eps[fd - FD0].family = AF_UNIX;
	if (doConnect(fd, AF_UNIX, 0, path) != 0)
	{
		int e = errno;
		eps[fd - FD0] = Ep();
		errno = e;
		return -1;
	}
	return fd;
}
int rawSend(int fd, const void* data, size_t n)
{
	size_t done = 0;
	while (done < n)
	{
		sp();
		RtScope r;
		ssize_t k = doSend(fd, (const char*)data + done, n - done, false);
		if (k < 0)
			return done ? (int)done : -1;
		done += (size_t)k;
	}
	return (int)done;
}
int rawShutdownWrite(int fd)
{
	sp();
	RtScope r;
	Ep* e = E(fd);
	if (!e || e->st != Ep::CONN)
		return -1;
	Ep* p = peerOf(e);
	if (p)
		p->in.writerClosed = true; // FIN after everything sent so far; this side can still receive
	e->peerGone = true;            // further sends from this side fail
	event("net shutdown(WR) c%d s%d", e->conn, e->side);
	changed();
	return 0;
}
int rawSendSegment(int fd, const void* data, size_t n)
{
	sp();
	RtScope r;
	return (int)doSend(fd, data, n, true);
}
int rawRecv(int fd, void* buf, size_t max, double timeout)
{
	sp();
	RtScope r;
	return (int)doRead(fd, buf, max, timeout < 0 ? -1 : (int64_t)(timeout * 1e9), false);
}
int rawRecvAll(int fd, std::string& out, size_t limit, double timeout)
{
	char buf[4096];
	for (;;)
	{
		if (out.size() >= limit)
			return 1;
		int k = rawRecv(fd, buf, std::min(sizeof buf, limit - out.size()), timeout);
		if (k <= 0)
			return k;
		out.append(buf, (size_t)k);
	}
}
void rawClose(int fd)
{
	sp();
	RtScope r;
	doClose(fd, false);
}
void rawReset(int fd)
{
	sp();
	RtScope r;
	doClose(fd, true);
	faultFired("reset");
}

} // namespace net

void netReset() { net::reset_(); }

} // namespace sim

using namespace sim;
using namespace sim::net;

static bool simCall() { return simThread() && !inRt; }

extern "C" {

int __wrap_socket(int family, int type, int proto)
{
	if (!simCall() || (type & 0xf) != SOCK_STREAM || (family != AF_INET && family != AF_UNIX))
		return __real_socket(family, type, proto);
	RtScope r;
	int fd = allocFd();
	if (fd >= 0)
		eps[fd - FD0].family = family;
	return fd;
}

int __wrap_setsockopt(int fd, int level, int opt, const void* val, socklen_t n)
{
	if (!simCall() || !inRange(fd))
		return __real_setsockopt(fd, level, opt, val, n);
	RtScope r;
	if (!E(fd))
	{
		errno = EBADF;
		return -1;
	}
	return 0;
}

int __wrap_bind(int fd, const struct sockaddr* addr, socklen_t len)
{
	if (!simCall() || !inRange(fd))
		return __real_bind(fd, addr, len);
	sp();
	RtScope r;
	Ep* e = E(fd);
	if (!e)
	{
		errno = EBADF;
		return -1;
	}
	if (e->st != Ep::NEW)
	{
		errno = EINVAL;
		return -1;
	}
	if (addr->sa_family == AF_UNIX)
	{
		const sockaddr_un* u = (const sockaddr_un*)addr;
		std::string path(u->sun_path, strnlen(u->sun_path, sizeof u->sun_path));
		if (unixNodes.count(path))
		{
			errno = EADDRINUSE;
			return -1;
		}
		e->family = AF_UNIX;
		e->path = path;
		unixNodes[path] = fd - FD0;
	}
	else
	{
		const sockaddr_in* a = (const sockaddr_in*)addr;
		int port = ntohs(a->sin_port);
		if (port == 0)
			port = ephemeral++;
		for (int i = 0; i < FDN; i++)
			if ((eps[i].st == Ep::BOUND || eps[i].st == Ep::LISTEN) && eps[i].family == AF_INET && eps[i].port == port)
			{
				errno = EADDRINUSE;
				return -1;
			}
		e->family = AF_INET;
		e->port = port;
	}
	e->st = Ep::BOUND;
	return 0;
}

int __wrap_listen(int fd, int backlog)
{
	if (!simCall() || !inRange(fd))
		return __real_listen(fd, backlog);
	RtScope r;
	Ep* e = E(fd);
	if (!e)
	{
		errno = EBADF;
		return -1;
	}
	if (e->st != Ep::BOUND && e->st != Ep::LISTEN)
	{
		errno = EDESTADDRREQ;
		return -1;
	}
	e->st = Ep::LISTEN;
	e->backlog = backlog < 0 ? 0 : backlog;
	return 0;
}

int __wrap_connect(int fd, const struct sockaddr* addr, socklen_t len)
{
	if (!simCall() || !inRange(fd))
		return __real_connect(fd, addr, len);
	sp();
	RtScope r;
	if (addr->sa_family == AF_UNIX)
	{
		const sockaddr_un* u = (const sockaddr_un*)addr;
		return doConnect(fd, AF_UNIX, 0, std::string(u->sun_path, strnlen(u->sun_path, sizeof u->sun_path)));
	}
	const sockaddr_in* a = (const sockaddr_in*)addr;
	return doConnect(fd, AF_INET, ntohs(a->sin_port), "");
}

int __wrap_accept(int fd, struct sockaddr* addr, socklen_t* len)
{
	if (!simCall() || !inRange(fd))
		return __real_accept(fd, addr, len);
	sp();
	checkCancel();
	int rc;
	{
		RtScope r;
		rc = doAccept(fd, true);
	}
	checkCancel();
	return rc;
}

ssize_t __wrap_send(int fd, const void* data, size_t n, int flags)
{
	if (!simCall() || !inRange(fd))
		return __real_send(fd, data, n, flags);
	sp();
	RtScope r;
	return doSend(fd, data, n, false);
}

ssize_t __wrap_write(int fd, const void* data, size_t n)
{
	if (!simCall() || !inRange(fd))
		return __real_write(fd, data, n);
	sp();
	RtScope r;
	return doSend(fd, data, n, false);
}

ssize_t __wrap_read(int fd, void* buf, size_t n)
{
	if (!simCall() || !inRange(fd))
		return __real_read(fd, buf, n);
	sp();
	checkCancel();
	ssize_t rc;
	{
		RtScope r;
		rc = doRead(fd, buf, n, -1, true);
	}
	checkCancel();
	return rc;
}

ssize_t __wrap_recv(int fd, void* buf, size_t n, int flags)
{
	if (!simCall() || !inRange(fd))
		return __real_recv(fd, buf, n, flags);
	return __wrap_read(fd, buf, n);
}

int __wrap_ioctl(int fd, unsigned long req, ...)
{
	va_list ap;
	va_start(ap, req);
	void* arg = va_arg(ap, void*);
	va_end(ap);
	if (!simCall() || !inRange(fd))
		return __real_ioctl(fd, req, arg);
	sp();
	RtScope r;
	Ep* e = E(fd);
	if (!e)
	{
		errno = EBADF;
		return -1;
	}
	if (req == FIONREAD)
	{
		if (e->st == Ep::LISTEN && e->family == AF_INET)
		{
			errno = EINVAL; // as Linux answers for a listening TCP socket
			return -1;
		}
		// asl passes a long*; the kernel writes an int
		*(int*)arg = e->st == Ep::CONN ? (int)arrived(e) : 0;
		return 0;
	}
	errno = EINVAL;
	return -1;
}

int __wrap_select(int nfds, fd_set* rs, fd_set* ws, fd_set* es, struct timeval* tv)
{
	if (!simCall())
		return __real_select(nfds, rs, ws, es, tv);
	bool anySim = false;
	for (int fd = FD0; fd < nfds && fd < FD0 + FDN; fd++)
		if (rs && FD_ISSET(fd, rs))
			anySim = true;
	if (!anySim)
	{
		if (!rs && !ws && !es && tv)
		{
			sim::sleepFor(tv->tv_sec + tv->tv_usec * 1e-6);
			return 0;
		}
		return __real_select(nfds, rs, ws, es, tv);
	}
	sp();
	checkCancel();
	int rc = 0;
	{
		RtScope r;
		int64_t dl = tv ? monoNs() + (int64_t)tv->tv_sec * 1000000000LL + (int64_t)tv->tv_usec * 1000 : -1;
		fd_set in = *rs;
		for (;;)
		{
			fd_set out;
			FD_ZERO(&out);
			int cnt = 0;
			bool bad = false;
			int64_t na = -1;
			for (int fd = 0; fd < nfds; fd++)
			{
				if (!FD_ISSET(fd, &in))
					continue;
				Ep* e = E(fd);
				if (!e)
				{
					if (inRange(fd))
						bad = true;
					continue;
				}
				if (readable(e))
				{
					FD_SET(fd, &out);
					cnt++;
				}
				else if (e->st == Ep::CONN)
				{
					int64_t a = nextArrival(e);
					if (a >= 0 && (na < 0 || a < na))
						na = a;
				}
			}
			if (bad)
			{
				errno = EBADF;
				rc = -1;
				break;
			}
			if (cnt > 0 || (dl >= 0 && monoNs() >= dl))
			{
				*rs = out;
				rc = cnt;
				break;
			}
			int64_t d = dl;
			if (na >= 0 && (d < 0 || na < d))
				d = na;
			blockOn(BK_NET, nullptr, d, true);
			if (self->cancelReq)
			{
				errno = EINTR;
				rc = -1;
				break;
			}
		}
		if (ws)
			FD_ZERO(ws);
		if (es)
			FD_ZERO(es);
	}
	checkCancel();
	return rc;
}

int __wrap_close(int fd)
{
	if (!simCall() || !inRange(fd))
		return __real_close(fd);
	sp();
	RtScope r;
	return doClose(fd, false);
}

int __wrap_shutdown(int fd, int how)
{
	if (!simCall() || !inRange(fd))
		return __real_shutdown(fd, how);
	sp();
	RtScope r;
	Ep* e = E(fd);
	if (!e)
	{
		errno = EBADF;
		return -1;
	}
	if (e->st != Ep::CONN)
	{
		errno = ENOTCONN;
		return -1;
	}
	if (how == SHUT_WR || how == SHUT_RDWR)
	{
		Ep* p = peerOf(e);
		if (p)
			p->in.writerClosed = true;
		e->peerGone = true; // further sends fail with EPIPE
		changed();
	}
	return 0;
}

static int fillAddr(Ep* e, bool peer, struct sockaddr* addr, socklen_t* len)
{
	if (e->family == AF_UNIX)
	{
		sockaddr_un u;
		memset(&u, 0, sizeof u);
		u.sun_family = AF_UNIX;
		const std::string& p = peer ? e->peerPath : e->path;
		socklen_t need = (socklen_t)(offsetof(sockaddr_un, sun_path) + (p.empty() ? 0 : p.size() + 1));
		strncpy(u.sun_path, p.c_str(), sizeof u.sun_path - 1);
		memcpy(addr, &u, std::min<socklen_t>(*len, (socklen_t)sizeof u));
		*len = need;
		return 0;
	}
	sockaddr_in a;
	memset(&a, 0, sizeof a);
	a.sin_family = AF_INET;
	a.sin_port = htons((unsigned short)(peer ? e->peerPort : e->port));
	a.sin_addr.s_addr = htonl(0x7f000001);
	memcpy(addr, &a, std::min<socklen_t>(*len, (socklen_t)sizeof a));
	*len = sizeof a;
	return 0;
}

int __wrap_getpeername(int fd, struct sockaddr* addr, socklen_t* len)
{
	if (!simCall() || !inRange(fd))
		return __real_getpeername(fd, addr, len);
	RtScope r;
	Ep* e = E(fd);
	if (!e)
	{
		errno = EBADF;
		return -1;
	}
	if (e->st != Ep::CONN)
	{
		errno = ENOTCONN;
		return -1;
	}
	return fillAddr(e, true, addr, len);
}

int __wrap_getsockname(int fd, struct sockaddr* addr, socklen_t* len)
{
	if (!simCall() || !inRange(fd))
		return __real_getsockname(fd, addr, len);
	RtScope r;
	Ep* e = E(fd);
	if (!e)
	{
		errno = EBADF;
		return -1;
	}
	return fillAddr(e, false, addr, len);
}

int __wrap_getaddrinfo(const char* node, const char* service, const struct addrinfo* hints, struct addrinfo** res)
{
	if (!simCall())
		return __real_getaddrinfo(node, service, hints, res);
	RtScope r;
	if (hints && hints->ai_family == AF_INET6)
		return EAI_NONAME;
	uint32_t ip = 0;
	struct in_addr ia;
	if (node && inet_aton(node, &ia))
		ip = ia.s_addr;
	else if (node && strcmp(node, "localhost") == 0)
		ip = htonl(0x7f000001);
	else if (node && strlen(node) > 4 && strcmp(node + strlen(node) - 4, ".sim") == 0)
		ip = htonl(0x0a000001);
	else
		return EAI_NONAME;
	char* blk = (char*)calloc(1, sizeof(addrinfo) + sizeof(sockaddr_in));
	addrinfo* ai = (addrinfo*)blk;
	sockaddr_in* sa = (sockaddr_in*)(blk + sizeof(addrinfo));
	sa->sin_family = AF_INET;
	sa->sin_addr.s_addr = ip;
	ai->ai_family = AF_INET;
	ai->ai_socktype = SOCK_STREAM;
	ai->ai_protocol = IPPROTO_TCP;
	ai->ai_addrlen = sizeof(sockaddr_in);
	ai->ai_addr = (sockaddr*)sa;
	ourAddrinfo.insert(ai);
	*res = ai;
	return 0;
}

void __wrap_freeaddrinfo(struct addrinfo* ai)
{
	{
		RtScope r;
		auto it = ourAddrinfo.find(ai);
		if (it != ourAddrinfo.end())
		{
			ourAddrinfo.erase(it);
			free(ai);
			return;
		}
	}
	__real_freeaddrinfo(ai);
}

} // extern "C"

namespace sim {
// called from the unlink wrapper in fs.cpp
bool netUnlinkHook(const char* path, int* rc)
{
	auto it = net::unixNodes.find(path);
	if (it == net::unixNodes.end())
		return false;
	net::unixNodes.erase(it);
	*rc = 0;
	return true;
}
}
