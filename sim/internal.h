// Internal interface of the simulator runtime (uninstrumented code only).
#pragma once
#include "sim.h"
#include <atomic>
#include <pthread.h>
#include <semaphore.h>
#include <sys/types.h>

namespace sim {

enum BlockKind { BK_NONE = 0, BK_MUTEX, BK_COND, BK_SEM, BK_JOIN, BK_JOINALL, BK_SLEEP, BK_NET, BK_TASK };

struct SThread
{
	int id = 0;
	pthread_t real{};
	bool hasReal = false;
	std::atomic<int> wake{0};
	enum St { RUNNABLE, BLOCKED, FINISHED } st = RUNNABLE;
	int bk = BK_NONE;
	const void* bobj = nullptr;
	int64_t deadline = -1;       // mono ns, -1 none
	bool absReal = false;        // deadline derives from an absolute wall-clock time
	int64_t realDeadline = 0;    // ns since unix epoch
	bool timedOut = false;
	bool cancellable = false;
	bool cancelReq = false;
	bool cancelWoken = false;
	bool signaled = false;       // condition variables
	bool detached = false;
	bool joined = false;
	void* (*fn)(void*) = nullptr;
	void* arg = nullptr;
	void* ret = nullptr;
	int64_t prio = 0;            // PCT
	uintptr_t lastRead = 0;
	int spin = 0;
	int noSched = 0;
	uintptr_t stackLo = 0, stackHi = 0;
	bool started = false;
	uint32_t vc[32] = {0};       // happens-before vector clock (destruction-race oracle, flavour T)
};

// ---- happens-before tracking (only when a scenario enables it; at most 32 simulated threads)
static const int HB_MAXT = 32;
struct HbClock
{
	uint32_t c[HB_MAXT] = {0};
};
extern bool g_hbOn;
void hbAcquire(const HbClock& from);            // self.vc = max(self.vc, from)
void hbRelease(HbClock& into, bool reset);      // into = (reset ? self.vc : max(into, self.vc)); self.vc[self]++
void hbFork(SThread* child);
void hbJoin(SThread* finished);
void hbAtomic(uintptr_t addr, bool acquire, bool release, bool isStore);
void hbSyncObj(const void* obj, bool acquire, bool release);
void hbReset();

extern __thread SThread* self;
extern __thread int inRt;
struct RtScope
{
	RtScope() { inRt++; }
	~RtScope() { inRt--; }
};

bool simThread();                 // calling thread is a simulated thread of an active run
void sp();                        // schedule point (no-op outside a run / inside the runtime)
void spAccess(uintptr_t addr, bool write);
// Blocks the calling simulated thread. Returns true if it timed out.
bool blockOn(int kind, const void* obj, int64_t deadlineMono, bool cancellable);
void wakeThread(SThread* t);
void wakeAll(int kind, const void* obj);
int wakeOne(int kind, const void* obj); // chooses with the env PRNG; returns tid or -1
void checkCancel();               // acts on a pending simulated cancellation (does not return then)
SThread* threadByReal(pthread_t p);
SThread* threadById(int id);
int threadCount();
SThread* createThread(void* (*fn)(void*), void* arg);

// clock
int64_t monoNs();
int64_t realNs();
void clockRead();                 // +1us
void clockJump(int64_t deltaNs);
int64_t realToMono(int64_t realNs_);
static const int64_t EPOCH0_NS = 1700000000LL * 1000000000LL;

// hooks for subsystems
void netReset();
void fsReset();
void heapReset();
void heapRunStart();
void heapRunEnd();
void syncReset();
bool heapCheckAccess(uintptr_t addr, size_t size, bool write);

// knobs for the run (set from plan "knob.*" parameters)
void setKnobs(const Plan& plan);

// low level
void evWait(std::atomic<int>& a);
void evPost(std::atomic<int>& a);
void vfail(bool hard, const char* cls, const char* key, const char* fmt, va_list ap);

} // namespace sim

extern "C" {
int __real_pthread_create(pthread_t*, const pthread_attr_t*, void* (*)(void*), void*);
int __real_pthread_join(pthread_t, void**);
int __real_pthread_detach(pthread_t);
void __real_pthread_exit(void*) __attribute__((noreturn));
}
