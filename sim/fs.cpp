// In-memory file system: stub for the kernel VFS. glibc stdio stays real (fopencookie).
#ifndef _GNU_SOURCE
#define _GNU_SOURCE
#endif
#include "internal.h"
#include "fs.h"
#include <errno.h>
#include <stdio.h>
#include <string.h>
#include <stdlib.h>
#include <dirent.h>
#include <utime.h>
#include <sys/stat.h>
#include <unistd.h>
#include <memory>
#include <set>

extern "C" {
FILE* __real_fopen(const char*, const char*);
int __real_stat(const char*, struct stat*);
int __real_utime(const char*, const struct utimbuf*);
int __real_rename(const char*, const char*);
int __real_unlink(const char*);
int __real_rmdir(const char*);
int __real_mkdir(const char*, mode_t);
DIR* __real_opendir(const char*);
struct dirent* __real_readdir(DIR*);
int __real_closedir(DIR*);
}

namespace sim {
bool netUnlinkHook(const char* path, int* rc);

namespace fs {

struct Node
{
	bool dir = false;
	std::string data;
	int64_t mtime = 0, ctime = 0;
};
typedef std::shared_ptr<Node> NodeP;
static std::map<std::string, NodeP> nodes;
static Stats st;
static std::vector<std::string> alog;

static Fault armed = F_NONE;
static long armedK = 0;
static int armedErr = 0;
static bool didFire = false;

struct Stream
{
	NodeP node;
	size_t off = 0;
	bool rd = false, wr = false, app = false;
};
struct SimDir
{
	std::vector<std::string> names;
	size_t pos = 0;
	struct dirent ent;
};
static std::set<SimDir*> dirs;

static std::string norm(const char* p)
{
	std::string s(p);
	while (s.size() > 1 && s.back() == '/')
		s.pop_back();
	// collapse duplicate slashes
	std::string o;
	for (char c : s)
		if (!(c == '/' && !o.empty() && o.back() == '/'))
			o += c;
	return o;
}

bool isSimPath(const char* path)
{
	return path && strncmp(path, "/sim", 4) == 0 && (path[4] == '/' || path[4] == 0);
}

static std::string parentOf(const std::string& p)
{
	size_t i = p.rfind('/');
	return i == 0 || i == std::string::npos ? "/" : p.substr(0, i);
}

static bool hasDotDot(const std::string& p)
{
	return p.find("/../") != std::string::npos || (p.size() >= 3 && p.compare(p.size() - 3, 3, "/..") == 0);
}

void reset_()
{
	nodes.clear();
	NodeP root(new Node);
	root->dir = true;
	nodes["/sim"] = root;
	st = Stats();
	alog.clear();
	armed = F_NONE;
	didFire = false;
	for (auto* d : dirs)
		delete d;
	dirs.clear();
}

bool exists(const std::string& p) { return nodes.count(norm(p.c_str())) > 0; }
bool isDir(const std::string& p)
{
	auto it = nodes.find(norm(p.c_str()));
	return it != nodes.end() && it->second->dir;
}
bool get(const std::string& p, std::string& out)
{
	auto it = nodes.find(norm(p.c_str()));
	if (it == nodes.end() || it->second->dir)
		return false;
	out = it->second->data;
	return true;
}
void mkdirs(const std::string& p0)
{
	std::string p = norm(p0.c_str());
	if (p.size() <= 4 || nodes.count(p))
		return;
	mkdirs(parentOf(p));
	NodeP n(new Node);
	n->dir = true;
	n->mtime = n->ctime = realNs();
	nodes[p] = n;
}
void put(const std::string& p0, const std::string& data)
{
	std::string p = norm(p0.c_str());
	mkdirs(parentOf(p));
	NodeP n(new Node);
	n->data = data;
	n->mtime = n->ctime = realNs();
	nodes[p] = n;
}
std::vector<std::string> list(const std::string& d0)
{
	std::string d = norm(d0.c_str());
	std::vector<std::string> out;
	for (auto& kv : nodes)
		if (kv.first.size() > d.size() && parentOf(kv.first) == d)
			out.push_back(kv.first.substr(d.size() + 1));
	return out;
}

void arm(Fault f, long k, int err)
{
	armed = f;
	armedK = k;
	armedErr = err;
	didFire = false;
}
void disarm() { armed = F_NONE; }
bool fired() { return didFire; }
const std::vector<std::string>& accessLog() { return alog; }
void clearAccessLog() { alog.clear(); }
const Stats& stats() { return st; }

static void fire(const char* kind)
{
	didFire = true;
	faultFired(kind);
}

// ---- cookie callbacks: the "system calls" under glibc stdio
// Every transfer between a stdio buffer and the "disk" is a schedule point, like a read()/write() system call: other
// simulated threads may run between one thread's block read and its block write (each File has its own FILE, so the
// stream lock held here blocks nobody else).
static inline void ioPoint()
{
	if (simThread() && !inRt)
		sp();
}
static ssize_t ckRead(void* c, char* buf, size_t n)
{
	ioPoint();
	Stream* s = (Stream*)c;
	if (!s->rd)
	{
		errno = EBADF;
		return -1;
	}
	const std::string& d = s->node->data;
	if (s->off >= d.size())
		return 0;
	size_t k = std::min(n, d.size() - s->off);
	if (armed == F_EIO)
	{
		if (armedK <= 0)
		{
			fire("eio");
			armed = F_NONE;
			errno = EIO;
			return -1;
		}
		if ((long)k > armedK)
			k = (size_t)armedK;
		armedK -= (long)k;
	}
	memcpy(buf, d.data() + s->off, k);
	s->off += k;
	st.reads++;
	st.bytesRead += k;
	return (ssize_t)k;
}
static ssize_t ckWrite(void* c, const char* buf, size_t n)
{
	ioPoint();
	Stream* s = (Stream*)c;
	if (!s->wr)
	{
		errno = EBADF;
		return 0;
	}
	size_t k = n;
	bool nospace = false;
	if (armed == F_ENOSPC)
	{
		if ((long)k > armedK)
		{
			k = armedK > 0 ? (size_t)armedK : 0;
			nospace = true;
		}
		armedK -= (long)k;
	}
	std::string& d = s->node->data;
	if (s->app)
		s->off = d.size();
	if (s->off > d.size())
		d.resize(s->off, '\0');
	if (s->off + k > d.size())
		d.resize(s->off + k);
	memcpy(&d[s->off], buf, k);
	s->off += k;
	s->node->mtime = realNs();
	st.writes++;
	st.bytesWritten += k;
	if (nospace)
	{
		fire("enospc");
		errno = ENOSPC;
		if (k == 0)
			return 0; // fopencookie convention: 0 signals an error
	}
	return (ssize_t)k;
}
static int ckSeek(void* c, off64_t* off, int whence)
{
	Stream* s = (Stream*)c;
	int64_t base = whence == SEEK_SET ? 0 : whence == SEEK_CUR ? (int64_t)s->off : (int64_t)s->node->data.size();
	int64_t n = base + *off;
	if (n < 0)
	{
		errno = EINVAL;
		return -1;
	}
	s->off = (size_t)n;
	*off = n;
	return 0;
}
static int ckClose(void* c)
{
	delete (Stream*)c;
	return 0;
}

static FILE* simFopen(const char* path0, const char* mode)
{
	std::string path = norm(path0);
	st.opens++;
	alog.push_back(path);
	if (armed == F_OPEN_FAIL)
	{
		fire("open_fail");
		armed = F_NONE;
		errno = armedErr ? armedErr : EACCES;
		return nullptr;
	}
	bool rd = false, wr = false, app = false, trunc = false, create = false;
	switch (mode[0])
	{
	case 'r': rd = true; break;
	case 'w': wr = true; trunc = create = true; break;
	case 'a': wr = true; app = create = true; break;
	default: errno = EINVAL; return nullptr;
	}
	if (strchr(mode, '+'))
		rd = wr = true;
	if (hasDotDot(path))
	{
		// resolve lexically (good enough: no symlinks in the simulated tree)
		std::vector<std::string> parts;
		size_t i = 0;
		while (i < path.size())
		{
			size_t j = path.find('/', i + 1);
			std::string c = path.substr(i + 1, (j == std::string::npos ? path.size() : j) - i - 1);
			if (c == "..")
			{
				if (!parts.empty())
					parts.pop_back();
			}
			else if (c != "." && !c.empty())
				parts.push_back(c);
			if (j == std::string::npos)
				break;
			i = j;
		}
		path.clear();
		for (auto& c : parts)
			path += "/" + c;
		alog.push_back(path);
		if (!isSimPath(path.c_str()))
		{
			errno = ENOENT;
			return nullptr;
		}
	}
	auto it = nodes.find(path);
	if (it == nodes.end())
	{
		if (!create)
		{
			errno = ENOENT;
			return nullptr;
		}
		auto pit = nodes.find(parentOf(path));
		if (pit == nodes.end() || !pit->second->dir)
		{
			errno = ENOENT;
			return nullptr;
		}
		NodeP n(new Node);
		n->mtime = n->ctime = realNs();
		it = nodes.emplace(path, n).first;
	}
	else if (it->second->dir)
	{
		if (wr)
		{
			errno = EISDIR;
			return nullptr;
		}
		// fopen(dir,"r") succeeds on Linux and read fails with EISDIR; asl never does that on purpose
		errno = EISDIR;
		return nullptr;
	}
	if (trunc)
	{
		it->second->data.clear();
		it->second->mtime = realNs();
	}
	Stream* s = new Stream;
	s->node = it->second;
	s->rd = rd;
	s->wr = wr;
	s->app = app;
	cookie_io_functions_t io = {ckRead, ckWrite, ckSeek, ckClose};
	FILE* f = fopencookie(s, mode, io);
	if (!f)
		delete s;
	return f;
}

} // namespace fs

void fsReset() { fs::reset_(); }

} // namespace sim

using namespace sim;
using namespace sim::fs;

static bool simCall() { return simThread() && !inRt; }

extern "C" {

FILE* __wrap_fopen(const char* path, const char* mode)
{
	if (simCall() && path && strcmp(path, "/dev/urandom") == 0)
	{
		// randomness seam: serve the run's PRNG
		RtScope r;
		Stream* s = new Stream;
		s->node = NodeP(new Node);
		for (int i = 0; i < 64; i++)
		{
			uint64_t v = envRng().next();
			s->node->data.append((const char*)&v, 8);
		}
		s->rd = true;
		cookie_io_functions_t io = {ckRead, ckWrite, ckSeek, ckClose};
		return fopencookie(s, "r", io);
	}
	if (!simCall() || !isSimPath(path))
		return __real_fopen(path, mode);
	sp();
	RtScope r;
	return simFopen(path, mode);
}

int __wrap_stat(const char* path, struct stat* sb)
{
	if (!simCall() || !isSimPath(path))
		return __real_stat(path, sb);
	sp();
	RtScope r;
	fs::st.stats++;
	std::string p = norm(path);
	alog.push_back(p);
	auto it = nodes.find(p);
	if (it == nodes.end())
	{
		errno = ENOENT;
		return -1;
	}
	memset(sb, 0, sizeof *sb);
	sb->st_mode = it->second->dir ? (S_IFDIR | 0755) : (S_IFREG | 0644);
	sb->st_nlink = 1;
	sb->st_size = it->second->dir ? 4096 : (off_t)it->second->data.size();
	sb->st_mtime = it->second->mtime / 1000000000LL;
	sb->st_ctime = it->second->ctime / 1000000000LL;
	sb->st_atime = sb->st_mtime;
	sb->st_blksize = 4096;
	return 0;
}

int __wrap_utime(const char* path, const struct utimbuf* t)
{
	if (!simCall() || !isSimPath(path))
		return __real_utime(path, t);
	RtScope r;
	auto it = nodes.find(norm(path));
	if (it == nodes.end())
	{
		errno = ENOENT;
		return -1;
	}
	it->second->mtime = t ? (int64_t)t->modtime * 1000000000LL : realNs();
	return 0;
}

int __wrap_rename(const char* from, const char* to)
{
	if (!simCall() || !isSimPath(from) || !isSimPath(to))
		return __real_rename(from, to);
	sp();
	RtScope r;
	fs::st.renames++;
	if (armed == F_RENAME_EXDEV || armed == F_RENAME_FAIL)
	{
		bool x = armed == F_RENAME_EXDEV;
		fire(x ? "rename_exdev" : "rename_fail");
		armed = F_NONE;
		errno = x ? EXDEV : EACCES;
		return -1;
	}
	std::string a = norm(from), b = norm(to);
	auto it = nodes.find(a);
	if (it == nodes.end())
	{
		errno = ENOENT;
		return -1;
	}
	auto pit = nodes.find(parentOf(b));
	if (pit == nodes.end() || !pit->second->dir)
	{
		errno = ENOENT;
		return -1;
	}
	auto bt = nodes.find(b);
	if (bt != nodes.end() && bt->second->dir != it->second->dir)
	{
		errno = bt->second->dir ? EISDIR : ENOTDIR;
		return -1;
	}
	if (a == b)
		return 0;
	NodeP n = it->second;
	if (n->dir)
	{
		// move the subtree
		std::vector<std::pair<std::string, NodeP>> moved;
		for (auto i = nodes.begin(); i != nodes.end();)
		{
			if (i->first.compare(0, a.size() + 1, a + "/") == 0)
			{
				moved.push_back({b + i->first.substr(a.size()), i->second});
				i = nodes.erase(i);
			}
			else
				++i;
		}
		for (auto& m : moved)
			nodes[m.first] = m.second;
	}
	nodes.erase(a);
	nodes[b] = n;
	return 0;
}

int __wrap_unlink(const char* path)
{
	if (!simCall())
		return __real_unlink(path);
	int rc;
	{
		RtScope r;
		if (netUnlinkHook(path, &rc))
			return rc;
	}
	if (!isSimPath(path))
	{
		// Unix-socket paths bound during a run live in the network stub only; never touch the real FS for them
		if (path && strncmp(path, "/simsock", 8) == 0)
		{
			errno = ENOENT;
			return -1;
		}
		return __real_unlink(path);
	}
	sp();
	RtScope r;
	auto it = nodes.find(norm(path));
	if (it == nodes.end())
	{
		errno = ENOENT;
		return -1;
	}
	if (it->second->dir)
	{
		errno = EISDIR;
		return -1;
	}
	nodes.erase(it);
	return 0;
}

int __wrap_rmdir(const char* path)
{
	if (!simCall() || !isSimPath(path))
		return __real_rmdir(path);
	sp();
	RtScope r;
	std::string p = norm(path);
	auto it = nodes.find(p);
	if (it == nodes.end())
	{
		errno = ENOENT;
		return -1;
	}
	if (!it->second->dir)
	{
		errno = ENOTDIR;
		return -1;
	}
	if (!fs::list(p).empty())
	{
		errno = ENOTEMPTY;
		return -1;
	}
	nodes.erase(it);
	return 0;
}

int __wrap_mkdir(const char* path, mode_t m)
{
	if (!simCall() || !isSimPath(path))
		return __real_mkdir(path, m);
	sp();
	RtScope r;
	std::string p = norm(path);
	if (nodes.count(p))
	{
		errno = EEXIST;
		return -1;
	}
	auto pit = nodes.find(parentOf(p));
	if (pit == nodes.end() || !pit->second->dir)
	{
		errno = ENOENT;
		return -1;
	}
	NodeP n(new Node);
	n->dir = true;
	n->mtime = n->ctime = realNs();
	nodes[p] = n;
	return 0;
}

DIR* __wrap_opendir(const char* path)
{
	if (!simCall() || !isSimPath(path))
		return __real_opendir(path);
	sp();
	RtScope r;
	std::string p = norm(path);
	alog.push_back(p);
	auto it = nodes.find(p);
	if (it == nodes.end() || !it->second->dir)
	{
		errno = it == nodes.end() ? ENOENT : ENOTDIR;
		return nullptr;
	}
	SimDir* d = new SimDir;
	d->names.push_back(".");
	d->names.push_back("..");
	for (auto& n : fs::list(p))
		d->names.push_back(n);
	dirs.insert(d);
	return (DIR*)d;
}

struct dirent* __wrap_readdir(DIR* d)
{
	if (!simCall() || !dirs.count((SimDir*)d))
		return __real_readdir(d);
	RtScope r;
	SimDir* sd = (SimDir*)d;
	if (sd->pos >= sd->names.size())
		return nullptr;
	memset(&sd->ent, 0, sizeof sd->ent);
	strncpy(sd->ent.d_name, sd->names[sd->pos].c_str(), sizeof sd->ent.d_name - 1);
	sd->ent.d_ino = sd->pos + 1;
	sd->pos++;
	return &sd->ent;
}

int __wrap_closedir(DIR* d)
{
	if (!simCall() || !dirs.count((SimDir*)d))
		return __real_closedir(d);
	RtScope r;
	dirs.erase((SimDir*)d);
	delete (SimDir*)d;
	return 0;
}

} // extern "C"
