// Stub-fidelity gate: the same scripted socket and file scenarios are executed once against the real
// kernel (loopback TCP, Unix sockets, real files) and once against the simulator's stubs; the two
// observation traces must be identical. A difference is a harness bug.
#include "../sim/sim.h"
#include <stdio.h>
#include <stdlib.h>
#include <string.h>
#include <errno.h>
#include <unistd.h>
#include <dirent.h>
#include <sys/stat.h>
#include <sys/socket.h>
#include <sys/un.h>
#include <sys/ioctl.h>
#include <sys/select.h>
#include <netinet/in.h>
#include <arpa/inet.h>
#include <string>
#include <vector>
#include <algorithm>

namespace {

std::vector<std::string>* g_trace;
std::string g_root, g_sock;
int g_port;

const char* en(int e)
{
	switch (e)
	{
	case 0: return "0";
	case ENOENT: return "ENOENT";
	case EEXIST: return "EEXIST";
	case ECONNREFUSED: return "ECONNREFUSED";
	case EPIPE: return "EPIPE";
	case ECONNRESET: return "ECONNRESET";
	case EADDRINUSE: return "EADDRINUSE";
	case ENOTEMPTY: return "ENOTEMPTY";
	case EISDIR: return "EISDIR";
	case ENOTDIR: return "ENOTDIR";
	case EBADF: return "EBADF";
	case ENOTCONN: return "ENOTCONN";
	case EINVAL: return "EINVAL";
	default: return "E?";
	}
}
void T(const char* fmt, ...)
{
	char b[400];
	va_list ap;
	va_start(ap, fmt);
	vsnprintf(b, sizeof b, fmt, ap);
	va_end(ap);
	g_trace->push_back(b);
}
int rdy(int fd, int ms)
{
	fd_set s;
	FD_ZERO(&s);
	FD_SET(fd, &s);
	timeval tv = {ms / 1000, (ms % 1000) * 1000};
	return select(fd + 1, &s, 0, 0, &tv);
}
int avail(int fd)
{
	long n = 0;
	int r = ioctl(fd, FIONREAD, &n);
	return r ? -1 : (int)(int)n;
}

void tcpScript()
{
	int l = socket(AF_INET, SOCK_STREAM, 0);
	T("tcp socket ok=%d", l >= 0);
	int one = 1;
	setsockopt(l, SOL_SOCKET, SO_REUSEADDR, &one, sizeof one);
	sockaddr_in a;
	memset(&a, 0, sizeof a);
	a.sin_family = AF_INET;
	a.sin_addr.s_addr = htonl(0x7f000001);
	a.sin_port = htons((unsigned short)g_port);
	int r = bind(l, (sockaddr*)&a, sizeof a);
	T("tcp bind %d", r);
	socklen_t sl = sizeof a;
	getsockname(l, (sockaddr*)&a, &sl);
	int port = ntohs(a.sin_port);
	r = listen(l, 5);
	T("tcp listen %d", r);
	T("tcp listener ready(0ms) %d avail %d", rdy(l, 0), avail(l));
	int c = socket(AF_INET, SOCK_STREAM, 0);
	a.sin_port = htons((unsigned short)port);
	r = connect(c, (sockaddr*)&a, sizeof a);
	T("tcp connect %d %s", r, en(r ? errno : 0));
	T("tcp listener ready(200ms) %d", rdy(l, 200));
	int s = accept(l, 0, 0);
	T("tcp accept ok=%d", s >= 0);
	sockaddr_in pa;
	sl = sizeof pa;
	r = getpeername(s, (sockaddr*)&pa, &sl);
	T("tcp getpeername %d family_inet=%d", r, pa.sin_family == AF_INET);
	T("tcp empty: ready %d avail %d", rdy(s, 0), avail(s));
	r = (int)send(c, "hello", 5, MSG_NOSIGNAL);
	T("tcp send %d", r);
	T("tcp after send: ready %d avail %d", rdy(s, 200), avail(s));
	char b[16] = {0};
	r = (int)read(s, b, 3);
	T("tcp read3 %d '%.3s' avail %d", r, b, avail(s));
	r = (int)send(s, "XY", 2, MSG_NOSIGNAL);
	T("tcp reply %d", r);
	rdy(c, 200);
	close(c); // graceful close with unread input on c ("XY" not read): RST to the server side
	T("tcp server after client close-with-unread: ready %d", rdy(s, 200));
	memset(b, 0, sizeof b);
	r = (int)read(s, b, 10);
	T("tcp server read remaining %d '%.2s'", r, b);
	r = (int)read(s, b, 10);
	T("tcp server read after drain %d %s", r, r < 0 ? en(errno) : "-");
	close(s);
	// graceful close without unread data
	int c2 = socket(AF_INET, SOCK_STREAM, 0);
	r = connect(c2, (sockaddr*)&a, sizeof a);
	rdy(l, 200);
	int s2 = accept(l, 0, 0);
	send(c2, "abc", 3, MSG_NOSIGNAL);
	rdy(s2, 200);
	close(c2);
	rdy(s2, 200);
	memset(b, 0, sizeof b);
	r = (int)read(s2, b, 10);
	T("tcp graceful: read %d '%.3s'", r, b);
	r = (int)read(s2, b, 10);
	T("tcp graceful: read at eof %d ready %d avail %d", r, rdy(s2, 0), avail(s2));
	r = (int)send(s2, "1", 1, MSG_NOSIGNAL);
	T("tcp graceful: first send to closed peer %d", r);
	rdy(s2, 100);
	r = (int)send(s2, "2", 1, MSG_NOSIGNAL);
	T("tcp graceful: second send to closed peer %d %s", r, r < 0 ? en(errno) : "-");
	close(s2);
	r = close(s2);
	T("tcp double close %d %s", r, en(r ? errno : 0));
	// connect to a port nobody listens on
	close(l);
	int c3 = socket(AF_INET, SOCK_STREAM, 0);
	r = connect(c3, (sockaddr*)&a, sizeof a);
	T("tcp connect after listener closed %d %s", r, en(r ? errno : 0));
	close(c3);
	int l2 = socket(AF_INET, SOCK_STREAM, 0), l3 = socket(AF_INET, SOCK_STREAM, 0);
	a.sin_port = htons((unsigned short)port);
	setsockopt(l2, SOL_SOCKET, SO_REUSEADDR, &one, sizeof one);
	r = bind(l2, (sockaddr*)&a, sizeof a);
	listen(l2, 1);
	int r2 = bind(l3, (sockaddr*)&a, sizeof a);
	T("tcp rebind %d second bind of same port %d %s", r, r2, en(r2 ? errno : 0));
	close(l2);
	close(l3);
}

void unixScript()
{
	unlink(g_sock.c_str());
	int l = socket(AF_UNIX, SOCK_STREAM, 0);
	sockaddr_un u;
	memset(&u, 0, sizeof u);
	u.sun_family = AF_UNIX;
	strncpy(u.sun_path, g_sock.c_str(), sizeof u.sun_path - 1);
	int r = bind(l, (sockaddr*)&u, sizeof u);
	T("unix bind %d", r);
	int l0 = socket(AF_UNIX, SOCK_STREAM, 0);
	r = bind(l0, (sockaddr*)&u, sizeof u);
	T("unix bind same path %d %s", r, en(r ? errno : 0));
	close(l0);
	listen(l, 5);
	int c = socket(AF_UNIX, SOCK_STREAM, 0);
	r = connect(c, (sockaddr*)&u, sizeof u);
	T("unix connect %d", r);
	int s = accept(l, 0, 0);
	T("unix accept ok=%d", s >= 0);
	sockaddr_un n;
	memset(&n, 0, sizeof n);
	socklen_t sl = sizeof n;
	r = getsockname(s, (sockaddr*)&n, &sl);
	T("unix getsockname(accepted) %d path_is_listener=%d", r, strcmp(n.sun_path, g_sock.c_str()) == 0);
	memset(&n, 0, sizeof n);
	sl = sizeof n;
	r = getsockname(c, (sockaddr*)&n, &sl);
	T("unix getsockname(client) %d path_empty=%d", r, n.sun_path[0] == 0);
	send(c, "ping", 4, MSG_NOSIGNAL);
	char b[16] = {0};
	T("unix ready %d avail %d", rdy(s, 200), avail(s));
	r = (int)read(s, b, 16);
	T("unix read %d '%.4s'", r, b);
	close(c);
	T("unix after peer close: ready %d avail %d", rdy(s, 200), avail(s));
	r = (int)read(s, b, 16);
	T("unix read at eof %d", r);
	r = (int)send(s, "x", 1, MSG_NOSIGNAL);
	T("unix send to closed peer %d %s", r, r < 0 ? en(errno) : "-");
	close(s);
	memset(&n, 0, sizeof n);
	sl = sizeof n;
	r = getsockname(s, (sockaddr*)&n, &sl);
	T("unix getsockname(closed) %d %s", r, en(r ? errno : 0));
	r = unlink(g_sock.c_str());
	T("unix unlink bound path %d", r);
	int c2 = socket(AF_UNIX, SOCK_STREAM, 0);
	r = connect(c2, (sockaddr*)&u, sizeof u);
	T("unix connect after unlink %d %s", r, en(r ? errno : 0));
	close(c2);
	close(l);
	// listener closed but path still there
	int l2 = socket(AF_UNIX, SOCK_STREAM, 0);
	bind(l2, (sockaddr*)&u, sizeof u);
	listen(l2, 5);
	close(l2);
	int c3 = socket(AF_UNIX, SOCK_STREAM, 0);
	r = connect(c3, (sockaddr*)&u, sizeof u);
	T("unix connect to path without listener %d %s", r, en(r ? errno : 0));
	close(c3);
	r = unlink(g_sock.c_str());
	T("unix unlink leftover %d", r);
	r = unlink(g_sock.c_str());
	T("unix unlink again %d %s", r, en(r ? errno : 0));
}

long fsize(const std::string& p)
{
	struct stat st;
	return stat(p.c_str(), &st) ? -1 : (long)st.st_size;
}

void fileScript()
{
	std::string d = g_root + "/fid", f = d + "/a.txt", g = d + "/b.txt";
	mkdir(g_root.c_str(), 0777);
	int r = mkdir(d.c_str(), 0777);
	T("mkdir %d", r);
	r = mkdir(d.c_str(), 0777);
	T("mkdir again %d %s", r, en(r ? errno : 0));
	FILE* x = fopen(f.c_str(), "r");
	T("fopen r missing null=%d %s", x == 0, en(x ? 0 : errno));
	x = fopen((d + "/nodir/x").c_str(), "w");
	T("fopen w in missing dir null=%d %s", x == 0, en(x ? 0 : errno));
	x = fopen(f.c_str(), "wb");
	T("fopen w ok=%d size %ld", x != 0, fsize(f));
	size_t n = fwrite("0123456789", 1, 10, x);
	T("fwrite %zu visible-before-flush %ld", n, fsize(f));
	fflush(x);
	T("after fflush %ld tell %ld", fsize(f), ftell(x));
	fseek(x, 2, SEEK_SET);
	fwrite("AB", 1, 2, x);
	fclose(x);
	T("after overwrite+close %ld", fsize(f));
	x = fopen(f.c_str(), "ab");
	fseek(x, 0, SEEK_SET);
	fwrite("ZZ", 1, 2, x);
	T("append: tell after write %ld", ftell(x));
	fclose(x);
	x = fopen(f.c_str(), "rb");
	char b[64] = {0};
	n = fread(b, 1, 5, x);
	T("fread5 %zu '%.5s' eof=%d tell %ld", n, b, feof(x) != 0, ftell(x));
	n = fread(b, 1, 60, x);
	b[n] = 0;
	T("fread rest %zu '%s' eof=%d", n, b, feof(x) != 0);
	fseek(x, -3, SEEK_END);
	n = fread(b, 1, 60, x);
	b[n] = 0;
	T("seek end-3 read %zu '%s'", n, b);
	fclose(x);
	x = fopen(f.c_str(), "rb+");
	fseek(x, 0, SEEK_END);
	T("r+ seek end tell %ld", ftell(x));
	fseek(x, 20, SEEK_SET);
	fwrite("!", 1, 1, x);
	fclose(x);
	T("write past end: size %ld", fsize(f));
	x = fopen(f.c_str(), "rb");
	n = fread(b, 1, 60, x);
	int zeros = 0;
	for (size_t i = 0; i < n; i++)
		zeros += b[i] == 0;
	T("hole read %zu zeros %d", n, zeros);
	fclose(x);
	x = fopen(g.c_str(), "w");
	fputs("other", x);
	fclose(x);
	r = rename(f.c_str(), g.c_str());
	T("rename over existing %d size %ld old-exists %d", r, fsize(g), fsize(f) >= 0);
	r = rename(f.c_str(), g.c_str());
	T("rename missing %d %s", r, en(r ? errno : 0));
	x = fopen(d.c_str(), "w");
	T("fopen w on directory null=%d %s", x == 0, en(x ? 0 : errno));
	struct stat st;
	stat(d.c_str(), &st);
	T("stat dir isdir=%d", S_ISDIR(st.st_mode) != 0);
	stat(g.c_str(), &st);
	T("stat file isreg=%d", S_ISREG(st.st_mode) != 0);
	mkdir((d + "/sub").c_str(), 0777);
	x = fopen((d + "/sub/c").c_str(), "w");
	fclose(x);
	DIR* dd = opendir(d.c_str());
	std::vector<std::string> names;
	while (dirent* e = readdir(dd))
		names.push_back(e->d_name);
	closedir(dd);
	std::sort(names.begin(), names.end());
	std::string all;
	for (auto& s : names)
		all += s + " ";
	T("readdir: %s", all.c_str());
	dd = opendir((d + "/nope").c_str());
	T("opendir missing null=%d %s", dd == 0, en(dd ? 0 : errno));
	r = rmdir((d + "/sub").c_str());
	T("rmdir non-empty %d %s", r, en(r ? errno : 0));
	r = unlink((d + "/sub").c_str());
	T("unlink directory %d %s", r, en(r ? errno : 0));
	unlink((d + "/sub/c").c_str());
	r = rmdir((d + "/sub").c_str());
	T("rmdir empty %d", r);
	r = unlink(g.c_str());
	T("unlink %d", r);
	r = unlink(g.c_str());
	T("unlink missing %d %s", r, en(r ? errno : 0));
	r = rmdir(d.c_str());
	T("rmdir %d", r);
}

void script()
{
	tcpScript();
	unixScript();
	fileScript();
}

void simScenario(const sim::Plan&) { script(); }

} // namespace

// returns 0 when the traces agree
int runFidelityGate(const std::string& buildDir, bool verbose)
{
	std::vector<std::string> real, stub;
	g_trace = &real;
	g_root = buildDir + "/tmp";
	g_sock = buildDir + "/tmp/fid.sock";
	g_port = 0; // ephemeral
	script();
	g_trace = &stub;
	g_root = "/sim";
	g_sock = "/simsock/fid.sock";
	g_port = 17000;
	sim::Plan plan;
	plan.scenario = "fidelity";
	sim::SchedCfg cfg;
	cfg.strategy = sim::ST_RUN2BLOCK;
	sim::RunResult res;
	sim::runOne(plan, cfg, simScenario, res);
	int diffs = 0;
	size_t n = std::max(real.size(), stub.size());
	for (size_t i = 0; i < n; i++)
	{
		std::string a = i < real.size() ? real[i] : "<missing>", b = i < stub.size() ? stub[i] : "<missing>";
		if (a != b)
		{
			diffs++;
			printf("fidelity: DIFFERENCE at observation %zu\n  kernel: %s\n  stub:   %s\n", i, a.c_str(), b.c_str());
		}
		else if (verbose)
			printf("fidelity: %s\n", a.c_str());
	}
	for (auto& f : res.failures)
	{
		diffs++;
		printf("fidelity: simulator failure %s %s %s\n", f.cls.c_str(), f.key.c_str(), f.msg.c_str());
	}
	printf("fidelity gate: %zu observations compared between the real kernel and the stubs, %d differences\n", n, diffs);
	return diffs ? 2 : 0;
}
