// simcheck: seeded search over plans, schedules and fault sequences; shrinking; replay; evidence.
#include "scenario.h"
#include "../sim/json.h"
#include <stdio.h>
#include <stdlib.h>
#include <string.h>
#include <unistd.h>
#include <errno.h>
#include <signal.h>
#include <sched.h>
#include <execinfo.h>
#include <fcntl.h>
#include <poll.h>
#include <time.h>
#include <sys/wait.h>
#include <sys/mman.h>
#include <sys/stat.h>
#include <algorithm>
#include <unordered_set>
#include <set>
#include <functional>
#include <fstream>
#include <sstream>

using namespace sim;

namespace sim {
JVal planToJVal(const Plan& p);
bool planFromJVal(const JVal& j, Plan& out);
}

#ifdef VERIF_ASAN
extern "C" __attribute__((used)) const char* __asan_default_options()
{
	return "exitcode=77:detect_leaks=0:detect_stack_use_after_return=1:abort_on_error=0:handle_abort=1:handle_segv=1:symbolize=1";
}
extern "C" void __sanitizer_set_death_callback(void (*)(void));
extern "C" const char* __asan_get_report_description();
extern "C" void* __asan_get_report_pc();
extern "C" int __asan_report_present();
extern "C" void __sanitizer_symbolize_pc(void* pc, const char* fmt, char* out, size_t out_size);
static void asanDeath()
{
	// key = kind of error + function containing the faulting pc, so that distinct defects get distinct keys
	static char key[300], msg[500], fn[200];
	const char* d = __asan_report_present() ? __asan_get_report_description() : "abort";
	fn[0] = 0;
	{
		// innermost library frame on the faulting thread's stack
		void* bt[48];
		int n = backtrace(bt, 48);
		for (int i = 0; i < n; i++)
		{
			char tmp[200];
			tmp[0] = 0;
			__sanitizer_symbolize_pc(bt[i], "%f", tmp, sizeof tmp);
			if (strncmp(tmp, "asl::", 5) == 0 || strstr(tmp, " asl::"))
			{
				snprintf(fn, sizeof fn, "%s", tmp);
				break;
			}
		}
	}
	for (char* c = fn; *c; c++)
		if (*c == '\t' || *c == '\n' || *c == ' ' || *c == ';')
			*c = '_';
	if (strstr(fn, "__asan") || strstr(fn, "__interceptor") || strstr(fn, "__sanitizer"))
		fn[0] = 0;
	snprintf(key, sizeof key, "%s%s%.180s", d, fn[0] ? ";" : "", fn);
	snprintf(msg, sizeof msg, "AddressSanitizer: %s in %s (full report in the worker log, or replay with VERIF_ISO_STDERR=1)", d, fn[0] ? fn : "?");
	sim::reportExternalCrash("memory", key, msg);
}
static void armSanitizer() { __sanitizer_set_death_callback(asanDeath); }
#else
static void armSanitizer() {}
#endif

int runFidelityGate(const std::string& buildDir, bool verbose);
extern "C" int __llvm_profile_write_file(void) __attribute__((weak));

static std::vector<Scenario>& reg()
{
	static std::vector<Scenario> v;
	return v;
}
void registerScenario(const Scenario& s) { reg().push_back(s); }
const std::vector<Scenario>& scenarios() { return reg(); }

static double wallNow()
{
	struct timespec ts;
	clock_gettime(CLOCK_MONOTONIC, &ts);
	return ts.tv_sec + ts.tv_nsec * 1e-9;
}

static uint64_t strHash(const char* s)
{
	uint64_t h = 1469598103934665603ULL;
	for (; *s; s++)
	{
		h ^= (unsigned char)*s;
		h *= 1099511628211ULL;
	}
	return h;
}

// ------------------------------------------------------------------ options
struct Opt
{
	std::string property, tier = "quick", replay, out, only, verifDir = "/verif", buildDir;
	uint64_t seed = 1;
	int workers = 16;
	double budget = 0;      // wall seconds for the search phase (0: tier default)
	double runsScale = 1.0;
	bool list = false;
	bool noShrink = false;
	long oneJob = -1;
	bool dumpHashes = false;
	bool fidelity = false, verbose = false;
} opt;

// ------------------------------------------------------------------ run derivation
struct Job
{
	const Scenario* sc;
	uint64_t idx;
};

static uint64_t g_genIdx = 0;
uint64_t genRunIndex() { return g_genIdx; }

static uint64_t seedOf(const Scenario* sc, uint64_t idx) { return mix64(mix64(opt.seed, strHash(sc->name)), idx); }

static void derive(const Scenario* sc, uint64_t idx, int tier, Plan& plan, SchedCfg& cfg)
{
	uint64_t s = seedOf(sc, idx);
	Prng prng(mix64(s, 1));
	plan = Plan();
	plan.scenario = sc->name;
	g_genIdx = idx;
	sc->gen(prng, plan, tier);
	Prng st(mix64(s, 2));
	cfg = SchedCfg();
	cfg.seed = mix64(s, 3);
	cfg.envSeed = mix64(s, 4);
	cfg.maxSteps = sc->maxSteps;
	cfg.maxSimTime = sc->maxSimTime;
	cfg.accessPoints = sc->accessPoints;
	cfg.relaxed = plan.get("relaxed", 0) != 0;
	if (cfg.relaxed)
		cfg.maxSimTime = 1e7; // threads may be held back for arbitrary simulated time: only the step bound judges termination
	uint32_t r = st.below(100);
	if ((int)r < sc->pctPercent)
	{
		cfg.strategy = ST_PCT;
		cfg.param = 1 + (int)st.below(4);
	}
	else if (st.below(10) == 0 || sc->randParams.empty())
	{
		cfg.strategy = ST_RUN2BLOCK;
		cfg.param = 0;
	}
	else
	{
		cfg.strategy = ST_RANDOM;
		cfg.param = sc->randParams[st.below((uint32_t)sc->randParams.size())];
	}
}

// ------------------------------------------------------------------ failure records
struct FailRec
{
	std::string scenario;
	uint64_t idx = 0;
	std::string cls, key, msg;
	bool hard = false;
	bool pilot = false;
};

static std::string sanitize(std::string s)
{
	for (auto& c : s)
		if (c == '\t' || c == '\n' || c == '\r')
			c = ' ';
	return s;
}

// ------------------------------------------------------------------ worker
struct Agg
{
	uint64_t runs = 0, nontrivial = 0, steps = 0, switches = 0, threads = 0, pilots = 0;
	double simTime = 0;
	std::map<std::string, uint64_t> faults, probes, strategies, failures;
	std::vector<std::string> samples;
};

static int g_resultFd = -1;
static volatile long* g_cur = nullptr; // shared: job currently running per worker
static int g_workerId = 0;
static long g_curJob = -1;
static bool g_curPilot = false;

static void writeAll(int fd, const std::string& s)
{
	size_t o = 0;
	while (o < s.size())
	{
		ssize_t k = write(fd, s.data() + o, s.size() - o);
		if (k <= 0)
		{
			if (errno == EINTR)
				continue;
			break;
		}
		o += (size_t)k;
	}
}

static void hardHandler(const char* cls, const char* key, const char* msg)
{
	if (g_resultFd >= 0)
	{
		char head[64];
		snprintf(head, sizeof head, "H %ld %d\t", g_curJob, g_curPilot ? 1 : 0);
		writeAll(g_resultFd, std::string(head) + cls + "\t" + key + "\t" + sanitize(msg) + "\n");
	}
}

static std::string stratName(const SchedCfg& c)
{
	char b[40];
	snprintf(b, sizeof b, "%s/%d", c.strategy == ST_PCT ? "pct" : c.strategy == ST_RANDOM ? "random" : "run2block", c.param);
	return b;
}

static void executeJob(const Scenario* sc, uint64_t idx, int tier, RunResult& res, Plan& plan, SchedCfg& cfg, bool& pilotFailed)
{
	derive(sc, idx, tier, plan, cfg);
	pilotFailed = false;
	if (cfg.strategy == ST_PCT)
	{
		SchedCfg pc = cfg;
		pc.strategy = ST_RUN2BLOCK;
		g_curPilot = true;
		runOne(plan, pc, sc->run, res);
		g_curPilot = false;
		if (!res.failures.empty())
		{
			pilotFailed = true;
			cfg = pc;
			return;
		}
		cfg.pctSteps = res.steps ? res.steps : 1;
	}
	runOne(plan, cfg, sc->run, res);
}

static std::map<std::string, Agg> g_agg;
static std::unordered_set<uint64_t> g_sigs;
static std::string g_sigPath;
static uint64_t g_sigTotal = 0;

static void flushWorker(bool truncated)
{
	if (!g_sigs.empty())
	{
		int fd = open(g_sigPath.c_str(), O_WRONLY | O_CREAT | O_APPEND, 0666);
		if (fd >= 0)
		{
			std::string blob;
			blob.reserve(g_sigs.size() * 8);
			for (uint64_t s : g_sigs)
				blob.append((const char*)&s, 8);
			writeAll(fd, blob);
			close(fd);
		}
		g_sigTotal += g_sigs.size();
		g_sigs.clear();
	}
	JVal z = JVal::obj();
	z.set("truncated", truncated);
	JVal sa = JVal::obj();
	for (auto& kv : g_agg)
	{
		const Agg& a = kv.second;
		JVal o = JVal::obj();
		o.set("runs", (int64_t)a.runs).set("nontrivial", (int64_t)a.nontrivial).set("steps", (int64_t)a.steps).set("switches", (int64_t)a.switches);
		o.set("threads", (int64_t)a.threads).set("pilots", (int64_t)a.pilots).set("sim_time", a.simTime);
		auto mp = [](const std::map<std::string, uint64_t>& m) {
			JVal x = JVal::obj();
			for (auto& e : m)
				x.set(e.first, JVal((int64_t)e.second));
			return x;
		};
		o.set("faults", mp(a.faults)).set("probes", mp(a.probes)).set("strategies", mp(a.strategies)).set("failures", mp(a.failures));
		JVal ss = JVal::arr();
		for (auto& s : a.samples)
			ss.push(s);
		o.set("samples", ss);
		sa.set(kv.first, o);
	}
	z.set("scenarios", sa);
	writeAll(g_resultFd, "Z " + z.str() + "\n");
	g_agg.clear();
}

static void workerCrashWriter(const char* key)
{
	static char line[256];
	int n = snprintf(line, sizeof line, "H %ld %d\tcrash\t%s\tfatal signal inside a simulated run\n", g_curJob, g_curPilot ? 1 : 0, key);
	if (g_resultFd >= 0 && n > 0)
		(void)!write(g_resultFd, line, (size_t)n);
}

static void workerHardHandler(const char* cls, const char* key, const char* msg)
{
	hardHandler(cls, key, msg);
	flushWorker(false);
}

// First-call effects (function-local statics, lazily built tables) would make a run's step count depend
// on what the process executed before it. Every process that executes counted runs - workers and the
// isolated children used for shrinking and replay - therefore first executes the same throw-away runs.
// A warm-up plan is a generated plan like any other, so on a defective tree it can itself fail hard
// (memory error, crash) and would take the process down before the run of interest starts, with the failure
// attributed to the wrong job. Each warm-up plan is therefore tried in a throw-away child first and only
// executed in this process when the child survived it; its failures are never reported (the same defect is
// found, attributed and replayed through the ordinary runs).
static void silentHard(const char*, const char*, const char*) {}
static void silentCrash(const char*) {}
static volatile long* g_probeBeat = nullptr;
static void probeProgress() { (*g_probeBeat)++; }
static bool warmupSurvives(const Scenario* sc, const Plan& plan, const SchedCfg& cfg)
{
	if (!g_probeBeat)
	{
		g_probeBeat = (volatile long*)mmap(0, 4096, PROT_READ | PROT_WRITE, MAP_SHARED | MAP_ANONYMOUS, -1, 0);
		if (g_probeBeat == MAP_FAILED)
			exit(2);
	}
	fflush(0);
	pid_t pid = fork();
	if (pid < 0)
		return false;
	if (pid == 0)
	{
		setHardFailHandler(silentHard);
		setCrashWriter(silentCrash);
		int nul = open("/dev/null", O_WRONLY);
		if (nul >= 0)
			dup2(nul, 2);
		alarm(300);
		setProgressHook(probeProgress);
		RunResult res;
		runOne(plan, cfg, sc->run, res);
		_exit(0);
	}
	// a warm-up plan that stops executing schedule points (a busy loop in the code under test) is abandoned
	// after 15 s: the ordinary runs will meet the same hang with proper attribution
	int st = 0;
	long lastBeat = *g_probeBeat;
	double lastAt = wallNow();
	for (unsigned spins = 0;; spins++)
	{
		pid_t r = waitpid(pid, &st, WNOHANG);
		if (r == pid)
			break;
		if (r < 0 && errno != EINTR)
			return false;
		usleep(spins < 200 ? 500 : 20000);
		long b = *g_probeBeat;
		if (b != lastBeat)
		{
			lastBeat = b;
			lastAt = wallNow();
		}
		else if (wallNow() - lastAt > 15.0)
		{
			kill(pid, SIGKILL);
			while (waitpid(pid, &st, 0) < 0 && errno == EINTR)
			{
			}
			return false;
		}
	}
	return WIFEXITED(st) && WEXITSTATUS(st) == 0;
}

static void warmup(const Scenario* sc, int tier)
{
	for (uint64_t k = 0; k < 6; k++)
	{
		Plan plan;
		SchedCfg cfg;
		derive(sc, 0xfffffff0ULL + k, tier, plan, cfg);
		cfg.strategy = ST_RUN2BLOCK;
		cfg.maxSteps = std::min<uint64_t>(cfg.maxSteps, 300000); // first-use effects happen early; a warm-up run that spins must stay cheap
		if (!warmupSurvives(sc, plan, cfg))
			break; // this tree fails its own warm-up: no point in spending the budget on the remaining warm-up plans
		RunResult res;
		runOne(plan, cfg, sc->run, res);
	}
}

static void workerProgress() { g_cur[64 + g_workerId]++; }

static void workerMain(const std::vector<Job>& jobs, int w, int W, long startJob, int tier, double deadline, const std::string& sigPath, bool doWarm)
{
	setProgressHook(workerProgress);
	setHardFailHandler(workerHardHandler);
	setCrashWriter(workerCrashWriter);
#ifndef VERIF_ASAN
	installCrashHandlers();
#endif
	armSanitizer();
	std::map<std::string, Agg>& agg = g_agg;
	std::unordered_set<uint64_t>& sigs = g_sigs;
	g_sigPath = sigPath;
	bool truncated = false;
	double lastFlush = wallNow();
	uint64_t sinceFlush = 0;
	if (doWarm)
	{
		g_cur[w] = -3;
		g_curJob = startJob;
		std::set<const Scenario*> seen;
		for (auto& j : jobs)
			if (seen.insert(j.sc).second)
				warmup(j.sc, tier);
	}
	for (long j = startJob; j < (long)jobs.size(); j += W)
	{
		if (wallNow() > deadline)
		{
			truncated = true;
			break;
		}
		g_curJob = j;
		g_cur[w] = j;
		g_cur[64 + w]++;
		const Scenario* sc = jobs[j].sc;
		RunResult res;
		Plan plan;
		SchedCfg cfg;
		bool pilotFailed;
		executeJob(sc, jobs[j].idx, tier, res, plan, cfg, pilotFailed);
		Agg& a = agg[sc->name];
		a.runs++;
		a.steps += res.steps;
		a.switches += res.switches;
		a.threads += res.threads;
		a.simTime += res.simTime;
		if (cfg.strategy == ST_PCT)
			a.pilots++;
		a.strategies[stratName(cfg)]++;
		for (auto& kv : res.faults)
			a.faults[kv.first] += kv.second;
		for (auto& kv : res.probes)
			a.probes[kv.first] += kv.second;
		if (res.nontrivial)
		{
			a.nontrivial++;
			if (g_sigTotal + sigs.size() < 6000000)
				sigs.insert(mix64(mix64(planHash(plan), res.schedSig), res.caseSig));
		}
		if (a.samples.size() < 3 && (res.nontrivial || a.runs > 50))
		{
			JVal s = JVal::obj();
			s.set("scenario", sc->name).set("run", (int64_t)jobs[j].idx).set("strategy", stratName(cfg)).set("plan", planBrief(plan, 600));
			s.set("steps", (int64_t)res.steps).set("context_switches", (int64_t)res.switches).set("threads", (int64_t)res.threads);
			char hb[40];
			snprintf(hb, sizeof hb, "%016llx", (unsigned long long)res.schedSig);
			s.set("schedule_signature", hb).set("nontrivial", res.nontrivial);
			JVal tl = JVal::arr();
			size_t from = res.tail.size() > 12 ? res.tail.size() - 12 : 0;
			for (size_t k = from; k < res.tail.size(); k++)
				tl.push(res.tail[k]);
			s.set("history_tail", tl);
			a.samples.push_back(s.str());
		}
		for (auto& f : res.failures)
		{
			a.failures[f.cls + "/" + f.key]++;
			char head[64];
			snprintf(head, sizeof head, "V %ld %d\t", j, pilotFailed ? 1 : 0);
			writeAll(g_resultFd, std::string(head) + f.cls + "\t" + f.key + "\t" + sanitize(f.msg) + "\n");
		}
		if (opt.dumpHashes)
		{
			char line[128];
			snprintf(line, sizeof line, "D %ld %016llx %016llx %llu\n", j, (unsigned long long)res.hash, (unsigned long long)res.schedSig, (unsigned long long)res.steps);
			writeAll(g_resultFd, line);
		}
		if (++sinceFlush >= 512 && wallNow() - lastFlush > 2.0)
		{
			g_cur[w] = -1; // between runs: a death here is not attributed to a job
			flushWorker(false);
			lastFlush = wallNow();
			sinceFlush = 0;
		}
	}
	flushWorker(truncated);
	g_cur[w] = -2;
}

// ------------------------------------------------------------------ isolated single run (shrinking, replay)
struct IsoResult
{
	bool ok = false;          // child completed and reported
	bool timeout = false;
	int exitCode = 0, sig = 0;
	std::vector<Failure> failures;
	uint64_t hash = 0, steps = 0;
	std::string decisions;
	std::vector<std::string> tail;
};

static const Scenario* findScenario(const std::string& name)
{
	for (auto& s : scenarios())
		if (name == s.name)
			return &s;
	return nullptr;
}

static int g_isoFd = -1;
static void isoHardHandler(const char* cls, const char* key, const char* msg)
{
	JVal j = JVal::obj();
	JVal fa = JVal::arr();
	JVal f = JVal::obj();
	f.set("cls", cls).set("key", key).set("msg", msg);
	fa.push(f);
	char hb[40];
	snprintf(hb, sizeof hb, "%016llx", (unsigned long long)currentHash());
	j.set("failures", fa).set("hard", true).set("hash", hb).set("steps", (int64_t)sim::steps()).set("decisions", currentDecisions());
	JVal tl = JVal::arr();
	for (auto& t : currentTail())
		tl.push(t);
	j.set("tail", tl);
	writeAll(g_isoFd, j.str() + "\n");
}

static void isoCrashWriter(const char* key)
{
	static char buf[1 << 20];
	int n = snprintf(buf, sizeof buf, "{\"failures\":[{\"cls\":\"crash\",\"key\":\"%s\",\"msg\":\"fatal signal inside a simulated run\"}],\"hard\":true,\"hash\":\"0\",\"steps\":%llu,\"decisions\":\"",
	                 key, (unsigned long long)sim::steps());
	size_t o = (size_t)n;
	o += formatDecisions(buf + o, sizeof buf - o - 8);
	o += (size_t)snprintf(buf + o, sizeof buf - o, "\"}\n");
	(void)!write(g_isoFd, buf, o);
}

static int g_tier = 0;
static IsoResult runIsolated(const Scenario* sc, const Plan& plan, const SchedCfg& cfg, double timeoutS = 30)
{
	IsoResult r;
	int pfd[2];
	if (pipe(pfd))
		return r;
	fflush(0);
	pid_t pid = fork();
	if (pid == 0)
	{
		close(pfd[0]);
		g_isoFd = pfd[1];
		int nul = open("/dev/null", O_WRONLY);
		if (!getenv("VERIF_ISO_STDERR"))
			dup2(nul, 2);
		setHardFailHandler(isoHardHandler);
		setCrashWriter(isoCrashWriter);
#ifndef VERIF_ASAN
		installCrashHandlers();
#endif
		armSanitizer();
		warmup(sc, g_tier);
		RunResult res;
		runOne(plan, cfg, sc->run, res);
		JVal j = JVal::obj();
		JVal fa = JVal::arr();
		for (auto& f : res.failures)
		{
			JVal o = JVal::obj();
			o.set("cls", f.cls).set("key", f.key).set("msg", f.msg);
			fa.push(o);
		}
		char hb[40];
		snprintf(hb, sizeof hb, "%016llx", (unsigned long long)res.hash);
		j.set("failures", fa).set("hash", hb).set("steps", (int64_t)res.steps).set("decisions", decisionsToString(res.decisions));
		JVal tl = JVal::arr();
		for (auto& t : res.tail)
			tl.push(t);
		j.set("tail", tl);
		writeAll(g_isoFd, j.str() + "\n");
		_exit(0);
	}
	close(pfd[1]);
	std::string buf;
	double t0 = wallNow();
	for (;;)
	{
		struct pollfd p = {pfd[0], POLLIN, 0};
		int pr = poll(&p, 1, 200);
		if (pr > 0)
		{
			char tmp[65536];
			ssize_t k = read(pfd[0], tmp, sizeof tmp);
			if (k > 0)
				buf.append(tmp, (size_t)k);
			else if (k == 0)
				break;
		}
		if (wallNow() - t0 > timeoutS)
		{
			kill(pid, SIGKILL);
			r.timeout = true;
			break;
		}
	}
	close(pfd[0]);
	int status = 0;
	waitpid(pid, &status, 0);
	if (WIFEXITED(status))
		r.exitCode = WEXITSTATUS(status);
	if (WIFSIGNALED(status))
		r.sig = WTERMSIG(status);
	size_t pos = 0;
	JVal j;
	if (!buf.empty() && JVal::parse(buf, pos, j))
	{
		r.ok = true;
		if (const JVal* fa = j.get("failures"))
			for (auto& f : fa->a)
				r.failures.push_back(Failure{f.gets("cls"), f.gets("key"), f.gets("msg")});
		r.hash = strtoull(j.gets("hash", "0").c_str(), 0, 16);
		r.steps = (uint64_t)j.geti("steps");
		r.decisions = j.gets("decisions");
		if (const JVal* tl = j.get("tail"))
			for (auto& t : tl->a)
				r.tail.push_back(t.s);
	}
	if (r.timeout)
		r.failures.push_back(Failure{"liveness", "wall_clock_hang", "run did not finish within the wall-clock watchdog"});
	else if (!r.ok || (r.exitCode != 0 && r.failures.empty()))
	{
		char m[100];
		if (r.exitCode == 77)
			r.failures.push_back(Failure{"memory", "sanitizer_report", "AddressSanitizer report (exit code 77)"});
		else if (r.sig)
		{
			snprintf(m, sizeof m, "signal_%d", r.sig);
			r.failures.push_back(Failure{"crash", m, "process terminated by a signal"});
		}
		else if (r.exitCode)
		{
			snprintf(m, sizeof m, "exit_%d", r.exitCode);
			r.failures.push_back(Failure{"crash", m, "process exited abnormally"});
		}
	}
	return r;
}

static bool hasFailure(const IsoResult& r, const std::string& cls, const std::string& key)
{
	for (auto& f : r.failures)
		if (f.cls == cls && f.key == key)
			return true;
	return false;
}

// ------------------------------------------------------------------ known findings
struct Known
{
	std::string status, property, scenario, cls, keyPrefix, what, commit;
};
static std::vector<Known> loadKnown()
{
	std::vector<Known> v;
	std::ifstream f(opt.verifDir + "/known_findings.json");
	if (!f)
		return v;
	std::stringstream ss;
	ss << f.rdbuf();
	JVal j;
	size_t pos = 0;
	std::string text = ss.str();
	if (!JVal::parse(text, pos, j))
		return v;
	const JVal* arr = j.t == JVal::ARR ? &j : j.get("findings");
	if (!arr)
		return v;
	for (auto& e : arr->a)
		v.push_back(Known{e.gets("status"), e.gets("property"), e.gets("scenario"), e.gets("class"), e.gets("key"), e.gets("what"), e.gets("commit")});
	return v;
}
static const Known* matchKnown(const std::vector<Known>& ks, const std::string& prop, const FailRec& f)
{
	for (auto& k : ks)
		if (k.status == "known" && k.property == prop && (k.scenario.empty() || k.scenario == f.scenario) && k.cls == f.cls &&
		    f.key.compare(0, k.keyPrefix.size(), k.keyPrefix) == 0 && (k.keyPrefix.size() == f.key.size() || k.keyPrefix.empty() || f.key[k.keyPrefix.size()] == ';'))
			return &k;
	return nullptr;
}

// ------------------------------------------------------------------ shrinking
struct Shrinker
{
	const Scenario* sc;
	std::string cls, key;
	Plan plan;
	SchedCfg cfg;
	int budget = 300;
	double deadline;
	int tried = 0;

	bool attempt(const Plan& cand, SchedCfg& used)
	{
		if (tried >= budget || wallNow() > deadline)
			return false;
		tried++;
		SchedCfg c = cfg;
		c.relaxed = cfg.relaxed = cand.get("relaxed", 0) != 0; // the plan owns this switch
		IsoResult r = runIsolated(sc, cand, c, 20);
		if (hasFailure(r, cls, key))
		{
			used = c;
			return true;
		}
		// the schedule PRNG lands elsewhere on a changed plan: try two more schedule seeds
		for (int k = 1; k <= 2 && tried < budget; k++)
		{
			tried++;
			c = cfg;
			c.seed = mix64(cfg.seed, 1000 + k);
			c.envSeed = mix64(cfg.envSeed, 1000 + k);
			IsoResult r2 = runIsolated(sc, cand, c, 20);
			if (hasFailure(r2, cls, key))
			{
				used = c;
				return true;
			}
		}
		return false;
	}

	void shrinkOps()
	{
		size_t chunk = plan.ops.size() / 2;
		if (chunk < 1)
			chunk = 1;
		while (chunk >= 1 && !plan.ops.empty())
		{
			bool any = false;
			for (size_t i = 0; i < plan.ops.size();)
			{
				Plan cand = plan;
				size_t n = std::min(chunk, cand.ops.size() - i);
				cand.ops.erase(cand.ops.begin() + i, cand.ops.begin() + i + n);
				SchedCfg used;
				if (attempt(cand, used))
				{
					plan = cand;
					cfg = used;
					any = true;
				}
				else
					i += n;
				if (tried >= budget)
					return;
			}
			if (chunk == 1 && !any)
				break;
			if (chunk > 1)
				chunk /= 2;
		}
	}
	void shrinkArgs()
	{
		for (size_t i = 0; i < plan.ops.size(); i++)
		{
			for (size_t a = 0; a < plan.ops[i].a.size(); a++)
			{
				int64_t v = plan.ops[i].a[a];
				std::vector<int64_t> cands;
				if (v != 0)
					cands.push_back(0);
				if (v > 1 || v < -1)
					cands.push_back(v / 2);
				if (v > 0)
					cands.push_back(v - 1);
				for (int64_t c : cands)
				{
					Plan cand = plan;
					cand.ops[i].a[a] = c;
					SchedCfg used;
					if (attempt(cand, used))
					{
						plan = cand;
						cfg = used;
						break;
					}
					if (tried >= budget)
						return;
				}
			}
			std::string& s = plan.ops[i].s;
			for (int round = 0; round < 6 && s.size() > 1; round++)
			{
				Plan cand = plan;
				cand.ops[i].s = s.substr(0, s.size() / 2);
				SchedCfg used;
				if (attempt(cand, used))
				{
					plan = cand;
					cfg = used;
					continue;
				}
				cand = plan;
				cand.ops[i].s = s.substr(s.size() / 2);
				if (attempt(cand, used))
				{
					plan = cand;
					cfg = used;
					continue;
				}
				break;
			}
		}
	}
	void shrinkParams()
	{
		std::vector<std::string> keys;
		for (auto& kv : plan.p)
			keys.push_back(kv.first);
		for (auto& k : keys)
		{
			if (plan.p[k] == 0)
				continue;
			Plan cand = plan;
			cand.p[k] = 0;
			SchedCfg used;
			if (attempt(cand, used))
			{
				plan = cand;
				cfg = used;
			}
			if (tried >= budget)
				return;
		}
	}
	// schedule simplification: drop decisions while the same violation persists (lenient replay)
	bool simplifySchedule(std::vector<Decision>& log)
	{
		IsoResult base = runIsolated(sc, plan, cfg, 20);
		if (!hasFailure(base, cls, key) || !base.ok)
			return false;
		log = decisionsFromString(base.decisions);
		SchedCfg rc = cfg;
		rc.replay = true;
		rc.lenient = true;
		size_t chunk = std::max<size_t>(1, log.size() / 2);
		int sbudget = 120;
		while (chunk >= 1 && !log.empty() && sbudget > 0 && wallNow() < deadline)
		{
			bool any = false;
			for (size_t i = 0; i < log.size() && sbudget > 0;)
			{
				std::vector<Decision> cand = log;
				size_t n = std::min(chunk, cand.size() - i);
				cand.erase(cand.begin() + i, cand.begin() + i + n);
				rc.log = cand;
				sbudget--;
				IsoResult r = runIsolated(sc, plan, rc, 20);
				if (r.ok && hasFailure(r, cls, key))
				{
					// adopt the decisions the lenient run really took
					log = decisionsFromString(r.decisions);
					any = true;
					if (i >= log.size())
						break;
				}
				else
					i += n;
			}
			if (chunk == 1 && !any)
				break;
			if (chunk > 1)
				chunk /= 2;
		}
		return true;
	}
};

// ------------------------------------------------------------------ replay files
static std::string cfgStrategyName(int s) { return s == ST_PCT ? "pct" : s == ST_RANDOM ? "random" : "run2block"; }

static JVal replayToJVal(const std::string& prop, const Scenario* sc, uint64_t idx, const Plan& plan, const SchedCfg& cfg, const std::vector<Decision>& log,
                         const std::string& cls, const std::string& key, const std::string& msg, uint64_t hash, const std::vector<std::string>& tail)
{
	JVal j = JVal::obj();
	j.set("property", prop).set("scenario", sc->name).set("flavour", VERIF_FLAVOUR).set("verif_seed", (int64_t)opt.seed).set("run", (int64_t)idx).set("tier", g_tier);
	JVal s = JVal::obj();
	s.set("strategy", cfgStrategyName(cfg.strategy)).set("param", cfg.param);
	char b[40];
	snprintf(b, sizeof b, "%016llx", (unsigned long long)cfg.seed);
	s.set("seed", b);
	snprintf(b, sizeof b, "%016llx", (unsigned long long)cfg.envSeed);
	s.set("env_seed", b);
	s.set("pct_steps", (int64_t)cfg.pctSteps).set("relaxed", cfg.relaxed).set("max_steps", (int64_t)cfg.maxSteps).set("max_sim_time", cfg.maxSimTime);
	s.set("access_points", cfg.accessPoints);
	j.set("sched", s);
	j.set("decisions", decisionsToString(log));
	JVal e = JVal::obj();
	snprintf(b, sizeof b, "%016llx", (unsigned long long)hash);
	e.set("class", cls).set("key", key).set("message", msg).set("run_hash", b);
	j.set("expect", e);
	j.set("plan_brief", planBrief(plan, 2000));
	JVal tl = JVal::arr();
	for (auto& t : tail)
		tl.push(t);
	j.set("history_tail", tl);
	j.set("plan", planToJVal(plan));
	return j;
}

static bool loadReplay(const std::string& path, JVal& j)
{
	std::ifstream f(path);
	if (!f)
		return false;
	std::stringstream ss;
	ss << f.rdbuf();
	std::string text = ss.str();
	size_t pos = 0;
	return JVal::parse(text, pos, j);
}

// returns 1 reproduced, 0 ran clean, 2 diverged/other
static int doReplay(const std::string& path, bool quiet, std::string* why = nullptr)
{
	JVal j;
	if (!loadReplay(path, j))
	{
		fprintf(stderr, "cannot read replay file %s\n", path.c_str());
		return 2;
	}
	const Scenario* sc = findScenario(j.gets("scenario"));
	if (!sc)
	{
		fprintf(stderr, "scenario %s not in this binary (flavour %s)\n", j.gets("scenario").c_str(), VERIF_FLAVOUR);
		return 2;
	}
	Plan plan;
	if (!j.get("plan") || !planFromJVal(*j.get("plan"), plan))
		return 2;
	g_tier = (int)j.geti("tier", 0);
	opt.seed = (uint64_t)j.geti("verif_seed", 1);
	SchedCfg cfg;
	const JVal* s = j.get("sched");
	std::string stn = s->gets("strategy");
	cfg.strategy = stn == "pct" ? ST_PCT : stn == "random" ? ST_RANDOM : ST_RUN2BLOCK;
	cfg.param = (int)s->geti("param");
	cfg.seed = strtoull(s->gets("seed").c_str(), 0, 16);
	cfg.envSeed = strtoull(s->gets("env_seed").c_str(), 0, 16);
	cfg.pctSteps = (uint64_t)s->geti("pct_steps");
	cfg.relaxed = s->geti("relaxed") != 0;
	cfg.maxSteps = (uint64_t)s->geti("max_steps", 400000);
	cfg.maxSimTime = s->get("max_sim_time") ? s->get("max_sim_time")->d : 600.0;
	if (cfg.maxSimTime <= 0)
		cfg.maxSimTime = 600;
	cfg.accessPoints = s->geti("access_points", 1) != 0;
	cfg.replay = j.gets("replay_mode") != "seeds";
	cfg.lenient = false;
	cfg.log = decisionsFromString(j.gets("decisions"));
	const JVal* e = j.get("expect");
	std::string cls = e->gets("class"), key = e->gets("key");
	uint64_t hash = strtoull(e->gets("run_hash").c_str(), 0, 16);
	IsoResult r = runIsolated(sc, plan, cfg, 60);
	bool same = hasFailure(r, cls, key);
	bool hashOk = !r.ok || hash == 0 || r.hash == hash;
	if (!quiet)
	{
		for (auto& f : r.failures)
			printf("replay: failure class=%s key=%s: %s\n", f.cls.c_str(), f.key.c_str(), f.msg.c_str());
		for (auto& t : r.tail)
			printf("replay:   %s\n", t.c_str());
	}
	if (same && hashOk)
		return 1;
	if (why)
		*why = same ? "run hash differs" : (r.failures.empty() ? "ran clean" : "different failure: " + r.failures[0].cls + "/" + r.failures[0].key);
	return r.failures.empty() ? 0 : 2;
}

// ------------------------------------------------------------------ main search
static std::string selfExe()
{
	char b[4096];
	ssize_t n = readlink("/proc/self/exe", b, sizeof b - 1);
	b[n > 0 ? n : 0] = 0;
	return b;
}

static int replayInFreshProcess(const std::string& path)
{
	fflush(0);
	pid_t pid = fork();
	if (pid == 0)
	{
		int nul = open("/dev/null", O_WRONLY);
		dup2(nul, 1);
		dup2(nul, 2);
		std::string exe = selfExe();
		execl(exe.c_str(), exe.c_str(), "--replay", path.c_str(), "--verif-dir", opt.verifDir.c_str(), "--build-dir", opt.buildDir.c_str(), (char*)0);
		_exit(3);
	}
	int status = 0;
	waitpid(pid, &status, 0);
	return WIFEXITED(status) ? WEXITSTATUS(status) : 3;
}

int main(int argc, char** argv)
{
	setvbuf(stdout, 0, _IOLBF, 0);
	if (const char* e = getenv("VERIF_SEED"))
		opt.seed = strtoull(e, 0, 10);
	if (const char* e = getenv("VERIF_TIER"))
		opt.tier = e;
	if (const char* e = getenv("VERIF_WORKERS"))
		opt.workers = atoi(e);
	for (int i = 1; i < argc; i++)
	{
		std::string a = argv[i];
		auto next = [&]() { return i + 1 < argc ? std::string(argv[++i]) : std::string(); };
		if (a == "--property") opt.property = next();
		else if (a == "--tier") opt.tier = next();
		else if (a == "--seed") opt.seed = strtoull(next().c_str(), 0, 10);
		else if (a == "--workers") opt.workers = atoi(next().c_str());
		else if (a == "--replay") opt.replay = next();
		else if (a == "--out") opt.out = next();
		else if (a == "--scenario") opt.only = next();
		else if (a == "--budget") opt.budget = atof(next().c_str());
		else if (a == "--runs-scale") opt.runsScale = atof(next().c_str());
		else if (a == "--verif-dir") opt.verifDir = next();
		else if (a == "--build-dir") opt.buildDir = next();
		else if (a == "--list") opt.list = true;
		else if (a == "--no-shrink") opt.noShrink = true;
		else if (a == "--job") opt.oneJob = atol(next().c_str());
		else if (a == "--dump-hashes") opt.dumpHashes = true;
		else if (a == "--fidelity") opt.fidelity = true;
		else if (a == "--verbose") opt.verbose = true;
		else
		{
			fprintf(stderr, "unknown argument %s\n", a.c_str());
			return 2;
		}
	}
	if (opt.buildDir.empty())
		opt.buildDir = opt.verifDir + "/build";
	if (opt.workers < 1)
		opt.workers = 1;
	if (opt.workers > 64)
		opt.workers = 64;
	if (opt.fidelity)
	{
		mkdir(opt.buildDir.c_str(), 0777);
		mkdir((opt.buildDir + "/tmp").c_str(), 0777);
		return runFidelityGate(opt.buildDir, opt.verbose);
	}
	if (opt.list)
	{
		for (auto& s : scenarios())
			printf("%s %s flavour=%s quick=%llu thorough=%llu\n", s.prop, s.name, VERIF_FLAVOUR, (unsigned long long)s.quickRuns, (unsigned long long)s.thoroughRuns);
		return 0;
	}
	if (!opt.replay.empty())
	{
		JVal j;
		std::string prop = loadReplay(opt.replay, j) ? j.gets("property") : "?";
		std::string why;
		int r = doReplay(opt.replay, false, &why);
		if (r == 1)
		{
			printf("VIOLATION property=%s replay=%s\n", prop.c_str(), opt.replay.c_str());
			return 1;
		}
		printf("replay did not reproduce the recorded violation (%s)\n", why.c_str());
		return r == 0 ? 0 : 2;
	}
	if (opt.property.empty())
	{
		fprintf(stderr, "usage: simcheck --property Cxx [--tier quick|thorough] | --replay file | --list\n");
		return 2;
	}
	int tier = opt.tier == "thorough" ? 1 : 0;
	g_tier = tier;
	std::vector<Job> jobs;
	std::vector<const Scenario*> scs;
	for (auto& s : scenarios())
		if (opt.property == s.prop && (opt.only.empty() || opt.only == s.name))
			scs.push_back(&s);
	if (scs.empty())
	{
		fprintf(stderr, "no scenario for property %s in flavour %s\n", opt.property.c_str(), VERIF_FLAVOUR);
		return 2;
	}
	// interleave scenarios so that a truncated search still covers all of them
	{
		std::vector<uint64_t> n;
		uint64_t mx = 0;
		for (auto* s : scs)
		{
			uint64_t k = (uint64_t)((tier ? s->thoroughRuns : s->quickRuns) * opt.runsScale);
			if (k < 1)
				k = 1;
			n.push_back(k);
			mx = std::max(mx, k);
		}
		std::vector<uint64_t> done(scs.size(), 0);
		for (uint64_t r = 0; r < mx; r++)
			for (size_t k = 0; k < scs.size(); k++)
			{
				// spread scenario k's n[k] runs evenly over mx rounds
				uint64_t want = (r + 1) * n[k] / mx;
				while (done[k] < want)
					jobs.push_back(Job{scs[k], done[k]++});
			}
	}
	if (opt.oneJob >= 0)
	{
		// debugging aid: run one job in-process
		const Job& jb = jobs[(size_t)opt.oneJob];
		RunResult res;
		Plan plan;
		SchedCfg cfg;
		bool pf;
		static volatile long dummy[64];
		g_cur = dummy;
		warmup(jb.sc, tier);
		{
			Plan pp;
			SchedCfg pc;
			derive(jb.sc, jb.idx, tier, pp, pc);
			printf("plan: %s\n", planBrief(pp, 3000).c_str());
			fflush(stdout);
		}
		executeJob(jb.sc, jb.idx, tier, res, plan, cfg, pf);
		printf("job %ld scenario %s idx %llu strategy %s steps %llu switches %llu hash %016llx\nplan: %s\n", opt.oneJob, jb.sc->name, (unsigned long long)jb.idx,
		       stratName(cfg).c_str(), (unsigned long long)res.steps, (unsigned long long)res.switches, (unsigned long long)res.hash, planBrief(plan, 3000).c_str());
		for (auto& t : res.tail)
			printf("  %s\n", t.c_str());
		for (auto& f : res.failures)
			printf("FAILURE %s %s %s\n", f.cls.c_str(), f.key.c_str(), f.msg.c_str());
		return res.failures.empty() ? 0 : 1;
	}

	double t0 = wallNow();
	double budget = opt.budget > 0 ? opt.budget : (tier ? 900.0 : 60.0);
	double deadline = t0 + budget;
	int W = opt.workers;
	std::string tmpDir = opt.buildDir + "/tmp";
	std::string replayDir = opt.buildDir == opt.verifDir + "/build" ? opt.verifDir + "/replays" : opt.buildDir + "/replays";
	mkdir(opt.buildDir.c_str(), 0777);
	mkdir(tmpDir.c_str(), 0777);
	mkdir((opt.buildDir + "/logs").c_str(), 0777);
	mkdir(replayDir.c_str(), 0777);
	char sigPath[512];
	snprintf(sigPath, sizeof sigPath, "%s/sig.%s.%s.%d", tmpDir.c_str(), opt.property.c_str(), VERIF_FLAVOUR, (int)getpid());
	unlink(sigPath);

	g_cur = (volatile long*)mmap(0, 4096, PROT_READ | PROT_WRITE, MAP_SHARED | MAP_ANONYMOUS, -1, 0);
	struct WorkerSt
	{
		pid_t pid = 0;
		int fd = -1;
		std::string buf;
		bool done = false;
		int restarts = 0;
	};
	std::vector<WorkerSt> ws((size_t)W);
	std::vector<FailRec> fails;
	std::vector<JVal> zs;
	bool truncated = false;
	uint64_t workerDeaths = 0;
	std::map<long, std::pair<uint64_t, uint64_t>> hashes;

	auto startWorker = [&](int w, long startJob, bool doWarm = true) {
		int pfd[2];
		if (pipe(pfd))
			exit(2);
		fflush(0);
		g_cur[w] = -1;
		pid_t pid = fork();
		if (pid == 0)
		{
			for (auto& o : ws)
				if (o.fd >= 0)
					close(o.fd);
			close(pfd[0]);
			g_resultFd = pfd[1];
			g_workerId = w;
			if (!getenv("VERIF_NO_PIN"))
			{
				// all threads of one worker share one CPU: hand-offs become local context switches
				long ncpu = sysconf(_SC_NPROCESSORS_ONLN);
				cpu_set_t cs;
				CPU_ZERO(&cs);
				CPU_SET((int)(w % (ncpu > 0 ? ncpu : 1)), &cs);
				sched_setaffinity(0, sizeof cs, &cs);
			}
			else
				setSpin(200);
			char lp[512];
			snprintf(lp, sizeof lp, "%s/logs/%s.%s.w%d.err", opt.buildDir.c_str(), opt.property.c_str(), VERIF_FLAVOUR, w);
			int lf = open(lp, O_WRONLY | O_CREAT | O_APPEND, 0666);
			if (lf >= 0)
				dup2(lf, 2);
			char sp[600];
			snprintf(sp, sizeof sp, "%s.%d", sigPath, w);
			workerMain(jobs, w, W, startJob, tier, deadline, sp, doWarm);
			if (__llvm_profile_write_file) // coverage builds only (tools/coverage.sh): workers leave through _exit
				__llvm_profile_write_file();
			_exit(0);
		}
		close(pfd[1]);
		ws[w].pid = pid;
		ws[w].fd = pfd[0];
		ws[w].done = false;
		ws[w].buf.clear();
	};
	for (int w = 0; w < W; w++)
	{
		char lp[512];
		snprintf(lp, sizeof lp, "%s/logs/%s.%s.w%d.err", opt.buildDir.c_str(), opt.property.c_str(), VERIF_FLAVOUR, w);
		unlink(lp);
		startWorker(w, w);
	}

	auto handleLine = [&](int w, const std::string& line) {
		(void)w;
		if (line.size() < 2)
			return;
		if (line[0] == 'V' || line[0] == 'H')
		{
			long job;
			int pilot = 0;
			sscanf(line.c_str() + 2, "%ld %d", &job, &pilot);
			size_t t1 = line.find('\t');
			size_t t2 = line.find('\t', t1 + 1);
			size_t t3 = line.find('\t', t2 + 1);
			if (t1 == std::string::npos || t2 == std::string::npos || t3 == std::string::npos || job < 0 || job >= (long)jobs.size())
				return;
			FailRec f;
			f.scenario = jobs[job].sc->name;
			f.idx = jobs[job].idx;
			f.cls = line.substr(t1 + 1, t2 - t1 - 1);
			f.key = line.substr(t2 + 1, t3 - t2 - 1);
			f.msg = line.substr(t3 + 1);
			f.hard = line[0] == 'H';
			f.pilot = pilot != 0;
			fails.push_back(f);
		}
		else if (line[0] == 'Z')
		{
			JVal j;
			size_t pos = 2;
			if (JVal::parse(line, pos, j))
			{
				zs.push_back(j);
				if (j.geti("truncated"))
					truncated = true;
			}
		}
		else if (line[0] == 'D')
		{
			long job;
			unsigned long long h, s, st;
			if (sscanf(line.c_str() + 2, "%ld %llx %llx %llu", &job, &h, &s, &st) == 4)
				printf("HASH %s %llu %016llx %016llx %llu\n", jobs[job].sc->name, (unsigned long long)jobs[job].idx, h, s, st);
		}
	};

	int live = W;
	std::vector<long> lastBeat((size_t)W, -1);
	std::vector<double> lastBeatAt((size_t)W, wallNow());
	double hangLimit = getenv("VERIF_HANG_LIMIT") ? atof(getenv("VERIF_HANG_LIMIT")) : 40.0; // no schedule point and no finished run for this long = a real hang (runs that keep stepping are bounded by the step cap)
	while (live > 0)
	{
		for (int w = 0; w < W; w++)
			if (!ws[w].done)
			{
				long b = g_cur[64 + w];
				if (b != lastBeat[w])
				{
					lastBeat[w] = b;
					lastBeatAt[w] = wallNow();
				}
				else if (wallNow() - lastBeatAt[w] > hangLimit && g_cur[w] >= 0)
				{
					// a run that makes no progress in wall-clock time: kill the worker, attribute to its job
					long cur = g_cur[w];
					FailRec f;
					f.scenario = jobs[cur].sc->name;
					f.idx = jobs[cur].idx;
					f.hard = true;
					f.cls = "liveness";
					f.key = "wall_clock_hang";
					f.msg = "run executed no schedule point for 40 s of wall-clock time (worker killed)";
					fails.push_back(f);
					kill(ws[w].pid, SIGKILL);
					lastBeatAt[w] = wallNow();
				}
			}
		std::vector<struct pollfd> pfds;
		std::vector<int> idx;
		for (int w = 0; w < W; w++)
			if (!ws[w].done)
			{
				pfds.push_back({ws[w].fd, POLLIN, 0});
				idx.push_back(w);
			}
		poll(pfds.data(), pfds.size(), 500);
		for (size_t k = 0; k < pfds.size(); k++)
		{
			int w = idx[k];
			if (!(pfds[k].revents & (POLLIN | POLLHUP | POLLERR)))
				continue;
			char tmp[65536];
			ssize_t n = read(ws[w].fd, tmp, sizeof tmp);
			if (n > 0)
			{
				ws[w].buf.append(tmp, (size_t)n);
				size_t p;
				while ((p = ws[w].buf.find('\n')) != std::string::npos)
				{
					handleLine(w, ws[w].buf.substr(0, p));
					ws[w].buf.erase(0, p + 1);
				}
				continue;
			}
			if (n < 0 && errno == EINTR)
				continue;
			// EOF: worker ended
			close(ws[w].fd);
			ws[w].fd = -1;
			int status = 0;
			waitpid(ws[w].pid, &status, 0);
			long cur = g_cur[w];
			bool clean = WIFEXITED(status) && WEXITSTATUS(status) == 0 && cur == -2;
			if (clean)
			{
				ws[w].done = true;
				live--;
				continue;
			}
			workerDeaths++;
			if (cur >= 0 && cur < (long)jobs.size())
			{
				bool have = false;
				for (auto& f : fails)
					if (f.hard && f.scenario == jobs[cur].sc->name && f.idx == jobs[cur].idx)
						have = true;
				if (!have)
				{
					FailRec f;
					f.scenario = jobs[cur].sc->name;
					f.idx = jobs[cur].idx;
					f.hard = true;
					if (WIFEXITED(status) && WEXITSTATUS(status) == 77)
					{
						f.cls = "memory";
						f.key = "sanitizer_report";
						f.msg = "AddressSanitizer report (see build/logs)";
					}
					else if (WIFSIGNALED(status))
					{
						f.cls = "crash";
						f.key = "signal_" + std::to_string(WTERMSIG(status));
						f.msg = "worker killed by signal";
					}
					else
					{
						f.cls = "crash";
						f.key = "exit_" + std::to_string(WIFEXITED(status) ? WEXITSTATUS(status) : -1);
						f.msg = "worker exited abnormally";
					}
					fails.push_back(f);
				}
			}
			long nextJob = cur >= 0 ? cur + W : (long)jobs.size();
			bool warmDied = cur == -3;
			if (warmDied)
			{
				// died in the warm-up runs: go on without them (the failure itself was reported through the H line, if any)
				nextJob = w;
				for (auto& f : fails)
					if (f.hard)
						nextJob = (long)jobs.size(); // a hard failure is already on record: no point in running this worker
			}
			if (ws[w].restarts++ < 2000 && nextJob < (long)jobs.size() && wallNow() < deadline)
				startWorker(w, nextJob, !warmDied);
			else
			{
				ws[w].done = true;
				live--;
			}
		}
	}
	double searchWall = wallNow() - t0;

	// ---------------- aggregate
	std::map<std::string, Agg> agg;
	for (auto& z : zs)
		if (const JVal* sa = z.get("scenarios"))
			for (auto& kv : sa->o)
			{
				Agg& a = agg[kv.first];
				const JVal& o = kv.second;
				a.runs += (uint64_t)o.geti("runs");
				a.nontrivial += (uint64_t)o.geti("nontrivial");
				a.steps += (uint64_t)o.geti("steps");
				a.switches += (uint64_t)o.geti("switches");
				a.threads += (uint64_t)o.geti("threads");
				a.pilots += (uint64_t)o.geti("pilots");
				if (o.get("sim_time"))
					a.simTime += o.get("sim_time")->t == JVal::DBL ? o.get("sim_time")->d : (double)o.get("sim_time")->i;
				auto addm = [](std::map<std::string, uint64_t>& m, const JVal* j) {
					if (j)
						for (auto& e : j->o)
							m[e.first] += (uint64_t)e.second.i;
				};
				addm(a.faults, o.get("faults"));
				addm(a.probes, o.get("probes"));
				addm(a.strategies, o.get("strategies"));
				addm(a.failures, o.get("failures"));
				if (const JVal* ss = o.get("samples"))
					for (auto& s : ss->a)
						if (a.samples.size() < 4)
							a.samples.push_back(s.s);
			}
	std::unordered_set<uint64_t> allSigs;
	for (int w = 0; w < W; w++)
	{
		char sp[600];
		snprintf(sp, sizeof sp, "%s.%d", sigPath, w);
		FILE* f = fopen(sp, "rb");
		if (f)
		{
			uint64_t s;
			while (fread(&s, 8, 1, f) == 1)
				allSigs.insert(s);
			fclose(f);
			unlink(sp);
		}
	}

	// ---------------- violations: classify, shrink, gate
	std::vector<Known> known = loadKnown();
	std::map<std::string, std::vector<FailRec>> groups;
	for (auto& f : fails)
		groups[f.scenario + "\t" + f.cls + "\t" + f.key].push_back(f);
	int violations = 0, knownHits = 0, transientStalls = 0;
	bool harnessBroken = false;
	JVal violJ = JVal::arr(), knownJ = JVal::arr();
	int shrunk = 0;
	for (auto& g : groups)
	{
		std::vector<FailRec>& v = g.second;
		std::sort(v.begin(), v.end(), [](const FailRec& a, const FailRec& b) { return a.idx < b.idx; });
		const FailRec& f = v[0];
		if (const Known* k = matchKnown(known, opt.property, f))
		{
			printf("KNOWN-FINDING: property=%s scenario=%s class=%s key=%s runs=%zu %s\n", opt.property.c_str(), f.scenario.c_str(), f.cls.c_str(), f.key.c_str(), v.size(), k->what.c_str());
			knownHits++;
			JVal o = JVal::obj();
			o.set("scenario", f.scenario).set("class", f.cls).set("key", f.key).set("runs", (int64_t)v.size()).set("what", k->what);
			knownJ.push(o);
			continue;
		}
		violations++;
		const Scenario* sc = findScenario(f.scenario);
		Plan plan;
		SchedCfg cfg;
		derive(sc, f.idx, tier, plan, cfg);
		if (cfg.strategy == ST_PCT)
		{
			if (f.pilot)
				cfg.strategy = ST_RUN2BLOCK;
			else
			{
				// recompute the pilot's step estimate (deterministic)
				SchedCfg pc = cfg;
				pc.strategy = ST_RUN2BLOCK;
				IsoResult pr = runIsolated(sc, plan, pc, 30);
				cfg.pctSteps = pr.steps ? pr.steps : 1;
			}
		}
		printf("violation candidate: property=%s scenario=%s run=%llu class=%s key=%s (%zu runs): %s\n", opt.property.c_str(), f.scenario.c_str(), (unsigned long long)f.idx,
		       f.cls.c_str(), f.key.c_str(), v.size(), f.msg.c_str());
		std::vector<Decision> log;
		std::string msg = f.msg;
		uint64_t hash = 0;
		std::vector<std::string> tail;
		IsoResult base = runIsolated(sc, plan, cfg, 60);
		if (!hasFailure(base, f.cls, f.key) && f.cls == "liveness" && f.key == "wall_clock_hang" && base.ok && base.failures.empty())
		{
			// A worker that executed no schedule point for a long wall-clock time although the same run completes normally
			// in a fresh process was stalled by the machine (load, paging), not by the code under test: a genuine
			// hang is deterministic and reproduces here. Reported, counted, not a verdict.
			printf("note: run %llu of %s stalled in wall-clock time in its worker but completes normally when re-executed (machine load); ignored\n", (unsigned long long)f.idx, f.scenario.c_str());
			violations--;
			transientStalls++;
			continue;
		}
		if (!hasFailure(base, f.cls, f.key))
		{
			printf("HARNESS-NONDETERMINISM: run %llu of %s did not fail again in an isolated process (got %s)\n", (unsigned long long)f.idx, f.scenario.c_str(),
			       base.failures.empty() ? "no failure" : (base.failures[0].cls + "/" + base.failures[0].key).c_str());
			harnessBroken = true;
			continue;
		}
		Shrinker sh;
		sh.sc = sc;
		sh.cls = f.cls;
		sh.key = f.key;
		sh.plan = plan;
		sh.cfg = cfg;
		double shrinkBudget = getenv("VERIF_SHRINK_BUDGET") ? atof(getenv("VERIF_SHRINK_BUDGET")) : 90;
		sh.deadline = wallNow() + (shrunk < 3 ? shrinkBudget : std::min(10.0, shrinkBudget));
		if (!opt.noShrink && shrunk < 6)
		{
			sh.shrinkOps();
			sh.shrinkParams();
			sh.shrinkArgs();
			sh.shrinkOps();
			sh.simplifySchedule(log);
			shrunk++;
		}
		// final strict recording of the minimised case
		SchedCfg fin = sh.cfg;
		IsoResult fr;
		if (!log.empty())
		{
			fin.replay = true;
			fin.lenient = true;
			fin.log = log;
			fr = runIsolated(sc, sh.plan, fin, 60);
			if (!hasFailure(fr, f.cls, f.key))
			{
				log.clear();
				fin = sh.cfg;
			}
		}
		if (log.empty())
			fr = runIsolated(sc, sh.plan, fin, 60);
		if (fr.ok)
		{
			log = decisionsFromString(fr.decisions);
			hash = fr.hash;
			tail = fr.tail;
		}
		for (auto& ff : fr.failures)
			if (ff.cls == f.cls && ff.key == f.key)
				msg = ff.msg;
		char rp[700];
		std::string keyFile = f.key;
		for (auto& c : keyFile)
			if (!isalnum((unsigned char)c))
				c = '_';
		snprintf(rp, sizeof rp, "%s/%s-%s-%s-%llu.json", replayDir.c_str(), opt.property.c_str(), f.scenario.c_str(), keyFile.substr(0, 40).c_str(), (unsigned long long)f.idx);
		JVal rj = replayToJVal(opt.property, sc, f.idx, sh.plan, sh.cfg, log, f.cls, f.key, msg, hash, tail);
		if (!fr.ok)
		{
			// the process died without a report (e.g. killed by the watchdog): replay from the seeds
			rj.set("decisions", "");
			rj.set("replay_mode", "seeds");
		}
		{
			std::ofstream o(rp);
			o << rj.str(1) << "\n";
		}
		// gate: two fresh processes must reproduce class and hash
		int r1 = replayInFreshProcess(rp), r2 = replayInFreshProcess(rp);
		if (r1 != 1 || r2 != 1)
		{
			printf("HARNESS-NONDETERMINISM: replay of %s gave exit codes %d and %d\n", rp, r1, r2);
			harnessBroken = true;
			continue;
		}
		printf("  minimised: %s\n  %s\n", planBrief(sh.plan, 1500).c_str(), msg.c_str());
		printf("VIOLATION property=%s replay=%s\n", opt.property.c_str(), rp);
		JVal o = JVal::obj();
		o.set("scenario", f.scenario).set("class", f.cls).set("key", f.key).set("runs", (int64_t)v.size()).set("replay", rp).set("message", msg);
		violJ.push(o);
	}

	// ---------------- partial evidence
	double wall = wallNow() - t0;
	JVal ev = JVal::obj();
	ev.set("property_id", opt.property).set("flavour", VERIF_FLAVOUR).set("tier", tier ? "thorough" : "quick").set("seed", (int64_t)opt.seed);
	uint64_t totalRuns = 0, totalNon = 0, totalSteps = 0, totalSw = 0;
	double totalSim = 0;
	JVal sj = JVal::obj();
	JVal samples = JVal::arr();
	std::map<std::string, uint64_t> faults, probes, strategies;
	std::string rule, realC, stubC;
	for (auto* sc : scs)
	{
		Agg& a = agg[sc->name];
		totalRuns += a.runs;
		totalNon += a.nontrivial;
		totalSteps += a.steps;
		totalSw += a.switches;
		totalSim += a.simTime;
		JVal o = JVal::obj();
		o.set("runs", (int64_t)a.runs).set("nontrivial_runs", (int64_t)a.nontrivial).set("schedule_points", (int64_t)a.steps).set("context_switches", (int64_t)a.switches);
		o.set("threads_created", (int64_t)a.threads).set("sim_time_s", a.simTime).set("pct_pilot_runs", (int64_t)a.pilots).set("rule", sc->rule);
		auto mp = [](const std::map<std::string, uint64_t>& m) {
			JVal x = JVal::obj();
			for (auto& e : m)
				x.set(e.first, JVal((int64_t)e.second));
			return x;
		};
		o.set("faults_fired", mp(a.faults)).set("probes", mp(a.probes)).set("strategies", mp(a.strategies)).set("failures", mp(a.failures));
		sj.set(sc->name, o);
		for (auto& kv : a.faults) faults[kv.first] += kv.second;
		for (auto& kv : a.probes) probes[std::string(sc->name) + "." + kv.first] += kv.second;
		for (auto& kv : a.strategies) strategies[kv.first] += kv.second;
		for (auto& s : a.samples)
		{
			JVal v;
			size_t pos = 0;
			if (samples.a.size() < 8 && JVal::parse(s, pos, v))
				samples.push(v);
		}
		rule += std::string(sc->name) + ": " + sc->rule + " ";
		if (realC.find(sc->real) == std::string::npos) realC += std::string(realC.empty() ? "" : "; ") + sc->real;
		if (stubC.find(sc->stub) == std::string::npos) stubC += std::string(stubC.empty() ? "" : "; ") + sc->stub;
	}
	auto mp = [](const std::map<std::string, uint64_t>& m) {
		JVal x = JVal::obj();
		for (auto& e : m)
			x.set(e.first, JVal((int64_t)e.second));
		return x;
	};
	ev.set("evaluations", (int64_t)totalRuns).set("nontrivial_runs", (int64_t)totalNon).set("distinct_nontrivial", (int64_t)allSigs.size());
	ev.set("schedule_points", (int64_t)totalSteps).set("context_switches", (int64_t)totalSw).set("sim_time_covered_s", totalSim);
	ev.set("runs_per_hour", (int64_t)(searchWall > 0 ? totalRuns / searchWall * 3600.0 : 0)).set("search_wall_s", searchWall).set("wall_s", wall);
	ev.set("planned_runs", (int64_t)jobs.size()).set("truncated_by_time_budget", truncated).set("workers", W).set("worker_restarts", (int64_t)workerDeaths);
	ev.set("faults_fired", mp(faults)).set("probes", mp(probes)).set("strategies", mp(strategies));
	ev.set("scenarios", sj).set("samples", samples).set("rule", rule).set("components_real", realC).set("components_stub", stubC);
	ev.set("transient_worker_stalls", transientStalls).set("violations", violations).set("violation_list", violJ).set("known_findings_hit", knownJ).set("harness_nondeterminism", harnessBroken);
	for (auto& kv : probes)
		if (kv.second == 0)
			printf("warning: probe %s never fired\n", kv.first.c_str());
	if (!opt.out.empty())
	{
		std::ofstream o(opt.out);
		o << ev.str(1) << "\n";
	}
	printf("simcheck[%s] property=%s tier=%s seed=%llu runs=%llu/%zu nontrivial=%llu distinct=%zu violations=%d known=%d wall=%.1fs (%.0f runs/h)%s\n", VERIF_FLAVOUR, opt.property.c_str(),
	       tier ? "thorough" : "quick", (unsigned long long)opt.seed, (unsigned long long)totalRuns, jobs.size(), (unsigned long long)totalNon, allSigs.size(), violations, knownHits, wall,
	       searchWall > 0 ? totalRuns / searchWall * 3600.0 : 0.0, truncated ? " [time budget reached]" : "");
	// a reproduced, replay-gated violation outranks flaky candidates (memory-corrupting code can behave
	// differently from process to process; that is the code's nondeterminism, not the simulator's)
	if (violJ.a.size() > 0)
		return 1;
	if (harnessBroken)
		return 2;
	if (totalRuns == 0 && !jobs.empty())
	{
		// nothing was explored (every worker spent the whole budget before its first counted run): that is not "held"
		printf("HARNESS-ERROR: no run completed within the budget; nothing was decided\n");
		return 2;
	}
	return 0;
}
