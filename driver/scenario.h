// Scenario registry: every check is a set of scenarios for one property.
#pragma once
#include "../sim/sim.h"
#include <vector>
#include <string>

struct Scenario
{
	const char* prop;
	const char* name;
	void (*gen)(sim::Prng& rng, sim::Plan& plan, int tier); // tier 0 quick, 1 thorough
	sim::ScenarioFn run;
	uint64_t quickRuns;
	uint64_t thoroughRuns;
	std::vector<int> randParams;   // RANDOM strategy: switch probability 1/param
	int pctPercent;                // share of runs using PCT (needs a pilot run)
	uint64_t maxSteps;
	double maxSimTime;
	const char* rule;              // what makes a run non-trivial / distinct
	const char* real;              // components running real code
	const char* stub;              // components stubbed
	bool accessPoints;             // flavour T: preempt at instrumented accesses
};

void registerScenario(const Scenario& s);
uint64_t genRunIndex(); // index of the run whose plan is being generated (for scenarios that enumerate a finite space in order)
const std::vector<Scenario>& scenarios();

struct ScenarioRegistrar
{
	ScenarioRegistrar(const Scenario& s) { registerScenario(s); }
};
#define REGISTER_SCENARIO(var, ...) static ScenarioRegistrar var##_reg(Scenario{__VA_ARGS__})

#ifndef VERIF_FLAVOUR
#define VERIF_FLAVOUR "A"
#endif
